"""C01 - events run in time-then-priority order; clock monotone; run semantics."""
from .. import core, envsim
from ..driver import Prop


try:
    from .. import floorsim as _f  # noqa
    FLOOR = True
except ImportError:
    FLOOR = False


class C01(Prop):
    id = 'C01'
    level_text = 'Seeded search: tens of thousands (quick) to millions (thorough) of generated event programs and whole-model runs per invocation, each dispatch checked against the minimum of a queue snapshot and an executable queue model in lockstep. Sampling, not proof: right level because the property quantifies over unbounded programs and tie-break outcomes.'
    level_note = 'Trusts: Python, the harness model (simv/envsim.py QModel), dyadic time grid; reads private _events/_paused_events lists for snapshots.'
    design_ref = 'DESIGN.md section 4 / C01'
    budgets = {'quick': 120000, 'thorough': 1500000}
    timeout_s = 20.0
    rule = ('envsim: seeded random event programs (<=60 events over <=4 asset ids, built-in and fractional '
            'priorities, children scheduled from inside actions, pause/unpause/cancel, past-scheduling attempts, '
            'run/step driver calls, six tie-break adversaries) executed on the real Environment in lockstep with a '
            'dict-based queue model; floor runs: the same dispatch monitor on whole factory models. '
            'A run is non-trivial if it dispatched >= 3 events; distinct = distinct SHA-256 of the dispatch sequence.')
    assumptions = [
        'events of asset id -1 (TERMINATE, resource manager checks) are never paused or cancelled by the generated programs',
        'custom priorities are above EventType.TERMINATE, as the property states',
        'order among events equal in (time, priority) is not constrained (the statement does not constrain it)',
        'times and durations are dyadic so float sums are exact',
    ]
    real_vs_stub = {'real': ['simprocesd.model.simulation.Environment', 'Event', 'bisect'],
                    'stub': ['event actions (harness scripts)', 'tie-break weight source (seeded adversary)']}

    def gen(self, rng, index, tier):
        if index % 8 == 7 and FLOOR:
            from .. import floorsim
            c = floorsim.gen_case(rng, profile='c01')
            return c
        return envsim.gen_program(rng, pause_bias=0.0 if rng.random() < 0.7 else 0.5)

    def run(self, case):
        if case['engine'] == 'floorsim':
            from .. import floorsim
            return floorsim.run_case(case, 'C01')
        return envsim.run_case(case, 'C01')

    def shrink(self, case):
        if case['engine'] == 'floorsim':
            from .. import floorsim
            return floorsim.shrink(case)
        return envsim.shrink(case)

    def nontrivial(self, stats):
        return stats.get('dispatches', 0) >= 3

    def sanity(self, agg, tier):
        errs = []
        if agg.get('tie_groups', 0) == 0:
            errs.append('C01: no same-(time,priority) tie group was ever resolved')
        if agg.get('past_rejected', 0) == 0:
            errs.append('C01: no past-scheduling attempt was made')
        return errs


PROP = C01()
