"""tools/dbg.py <prop> <index> [--trace N]: print one generated case and run it."""
import sys, os, json
sys.dont_write_bytecode = True
sys.path.insert(0, '/verif')
from simv import core, driver, props
prop = props.get(sys.argv[1]); idx = int(sys.argv[2])
core.load_library()
driver._PROP = prop
case = driver.make_case(prop, int(os.environ.get('VERIF_SEED', 0)), 'quick', idx)
if '--show' in sys.argv:
    for d in case.get('devices', []): print(d)
    for k in case:
        if k != 'devices': print(k, case[k])
if '--trace' in sys.argv:
    n = int(sys.argv[sys.argv.index('--trace') + 1])
    ns = core.load_library()
    orig = core._orig['Event.execute']
    cnt = [0]
    def ex(self):
        cnt[0] += 1
        if cnt[0] > n - 60 and cnt[0] <= n:
            print(cnt[0], self.time, self.asset_id, getattr(self.action, '__name__', self.action), getattr(getattr(self.action,'__self__',None),'name',''), float(self.event_type), self.message, 'C' if self.cancelled else '')
        return orig(self)
    core._orig['Event.execute'] = ex
r = core.run_guarded(prop.run, case, 60, prop.timeout_clause)
print(r['status'], r.get('violation'), (r.get('note') or '')[:3000])
