from ._floorprop import FloorProp


class C11(FloorProp):
    id = 'C11'
    profile = 'c11'
    crash_every = 5
    design_ref = 'DESIGN.md section 4 / C11'
    budgets = {'quick': 40000, 'thorough': 800000}


PROP = C11()
