"""Per-property oracles for floorsim.  Each monitor checks only the clauses of
its own property; all are incremental (work per dispatch is O(#devices +
#parts currently inside devices))."""
import math
import os

from . import core
from .core import HarnessError
from .floor import Monitor, leaves_of, ordinal_of, pred_accepts, HOLDER_KINDS


class Census(Monitor):
    """Shared observation: where every leaf part is after each dispatch.

    Maintains on the floor object:
      f.where      leaf id -> [(holder, slot)]  (inside devices, sinks excluded)
      f.delivered  leaf id -> [sink, ...]
      f.lost       leaf id -> [proc, ...]        (reported to shutdown callbacks)
      f.hseq       leaf id -> [holder names in order of visits]
      f.moves      [(leaf, from_holder|None, to_holder|('sink',s)|('lost',p))] this step
    """

    def start(self, f):
        f.where = {}
        f.delivered = {}
        f.lost = {}
        f.hseq = {}
        f.moves = []
        f.leaf_by_id = {}
        f.sink_seen = {s: 0 for s in f.sinks}
        f.lost_seen = 0
        f.leaves_seen = 0
        f.new_deliveries = []
        f.new_lost = []
        f.census_step = -1

    def after_step(self, f, e):
        self.observe(f)

    def after_simulate(self, f):
        self.observe(f)

    def observe(self, f):
        lib = f.lib
        prev = f.where
        where = f.census()
        f.moves = []
        f.new_deliveries = []
        f.new_lost = []
        while f.leaves_seen < len(f.leaves):
            lf = f.leaves[f.leaves_seen]
            f.leaf_by_id[id(lf)] = lf
            f.leaves_seen += 1
        for s in f.sinks:
            cp = f.dev[s].collected_parts
            k = f.sink_seen[s]
            while k < len(cp):
                item = cp[k]
                k += 1
                f.new_deliveries.append((s, item))
                for lf in leaves_of(item, lib):
                    f.delivered.setdefault(id(lf), []).append(s)
                    f.hseq.setdefault(id(lf), []).append(s)
                    f.moves.append((lf, (prev.get(id(lf)) or [(None, None)])[0][0], ('sink', s)))
            f.sink_seen[s] = k
        while f.lost_seen < len(f.lost_log):
            proc, item, t = f.lost_log[f.lost_seen]
            f.lost_seen += 1
            f.new_lost.append((proc, item))
            for lf in leaves_of(item, lib):
                f.lost.setdefault(id(lf), []).append(proc)
                f.moves.append((lf, (prev.get(id(lf)) or [(None, None)])[0][0], ('lost', proc)))
        for lid, places in where.items():
            h = places[0][0]
            ph = prev.get(lid)
            if ph is None or ph[0][0] != h:
                f.hseq.setdefault(lid, []).append(h)
                f.moves.append((f.leaf_by_id.get(lid), ph[0][0] if ph else None, h))
        f.prev_where = prev
        f.where = where
        f.census_step = f.step_no


# ===========================================================================
# C02 conservation
# ===========================================================================
class C02Monitor(Monitor):
    def start(self, f):
        self.active = set()

    def after_step(self, f, e):
        self.check(f)

    def after_simulate(self, f):
        self.check(f)

    def check(self, f):
        lib = f.lib
        where, prev = f.where, getattr(f, 'prev_where', {})
        # (b) nothing invented
        for lid in where:
            if lid not in f.leaf_by_id:
                f.fail('C02.b', f'a part that no source generated is held at {where[lid]}', 'invented')
        # (a) exactly one place
        cand = set(where) | set(prev)
        for s, item in f.new_deliveries:
            cand.update(id(x) for x in leaves_of(item, lib))
        for p, item in f.new_lost:
            cand.update(id(x) for x in leaves_of(item, lib))
        self.ev(f, 'C02.a', len(cand))
        for lid in cand:
            places = [f'{h}.{s}' for h, s in where.get(lid, [])] \
                + [f'sink:{s}' for s in f.delivered.get(lid, [])] \
                + [f'lost:{p}' for p in f.lost.get(lid, [])]
            if len(places) != 1:
                lf = f.leaf_by_id.get(lid)
                nm = lf.name if lf is not None else '?'
                if not places:
                    was = prev.get(lid)
                    kind = 'dropped'
                    extra = {}
                    ev = f.cur_event
                    if ev is not None and getattr(ev.action, '__name__', '') == '_fail':
                        kind = 'dropped_by_failure'
                        proc = getattr(ev.action, '__self__', None)
                        extra['proc_was_down'] = bool(getattr(f, 'down_before_step', {}).get(
                            f.name_of.get(id(proc))))
                    f.fail('C02.a', f'part {nm} vanished: it was at {was} and is now in no device, '
                           f'no sink and was not reported lost', kind, **extra)
                f.fail('C02.a', f'part {nm} is in {len(places)} places: {places}', 'duplicated')
        # (c) single-slot devices
        for n in f.holders:
            k, o = f.kind[n], f.dev[n]
            if k in ('handler', 'proc', 'sink') and o._part is not None and o._output is not None:
                f.fail('C02.c', f'single-slot device {n} holds two parts '
                       f'({o._part.name} and {o._output.name})', 'twoparts')
            if k == 'source' and o._part is not None:
                f.fail('C02.c', f'source {n} holds a part in its input slot', 'srcpart')
        self.ev(f, 'C02.c', len(f.holders))
        # (d) budgets
        for n in f.sources:
            o = f.dev[n]
            gen = o._part_generator._generated_part_counter
            left = gen - (1 if o._output is not None else 0)
            if o.produced_parts != left:
                f.fail('C02.d', f'source {n} reports {o.produced_parts} supplied parts but {left} '
                       f'parts have left it', 'count')
            if o.produced_parts > f.budget[n]:
                f.fail('C02.d', f'source {n} supplied {o.produced_parts} parts, budget is '
                       f'{f.budget[n]}', 'budget')
        # (e) totals
        inside = len(where)
        delivered = sum(len(v) for v in f.delivered.values())
        lost = sum(len(v) for v in f.lost.values())
        if len(f.leaves) != inside + delivered + lost:
            f.fail('C02.e', f'generated {len(f.leaves)} != inside {inside} + delivered {delivered} '
                   f'+ lost {lost}', 'total')
        rc = sum(f.dev[s].received_parts_count for s in f.sinks)
        if rc != delivered:
            f.fail('C02.e', f'sinks report {rc} received parts, {delivered} were delivered', 'sinkcount')
        self.ev(f, 'C02.e')


class DownTracker(Monitor):
    """Samples is_operational() after every dispatch (independent of the
    library's callbacks)."""

    def start(self, f):
        f.down_before_step = {}
        f.down = {n: False for n in f.procs}

    def before_step(self, f):
        f.down_before_step = dict(f.down)

    def after_step(self, f, e):
        for n in f.procs:
            f.down[n] = not f.dev[n].is_operational()


# ===========================================================================
# C05 buffer contract
# ===========================================================================
class C05Monitor(Monitor):
    def start(self, f):
        self.prev = {b: [] for b in f.buffers}
        self.arrival = {}

    def after_step(self, f, e):
        lib, now = f.lib, f.env.now
        for b in f.buffers:
            o = f.dev[b]
            stored = o.stored_parts
            n_leaves = sum(len(leaves_of(x, lib)) for x in stored)
            if o.level() != n_leaves:
                f.fail('C05.a', f'buffer {b} reports level {o.level()} but stores {n_leaves} parts', 'level')
            if n_leaves > o.capacity:
                f.fail('C05.b', f'buffer {b} stores {n_leaves} parts, capacity {o.capacity}', 'capacity')
            before = self.prev[b]
            ids_after = [id(x) for x in stored]
            ids_before = [id(x) for x in before]
            still = [i for i in ids_before if i in set(ids_after)]
            r = len(ids_before) - len(still)
            if ids_before[r:] != still or ids_after[:len(still)] != still:
                f.fail('C05.c', f'buffer {b}: content {[x.name for x in stored]} is not '
                       f'{[x.name for x in before]} minus a prefix plus arrivals', 'fifo')
            arrivals = stored[len(still):]
            for x in arrivals:
                self.arrival[(b, id(x))] = now
            for x in before[:r]:
                t_in = self.arrival.pop((b, id(x)))
                ulp = math.ulp(now)
                if o.minimum_delay - (now - t_in) > ulp:
                    f.fail('C05.d', f'buffer {b}: part {x.name} arrived at {t_in} and left at {now}, '
                           f'minimum delay is {o.minimum_delay}', 'delay')
                f.bump(f.stats['reach'], 'buffer_departures')
            if arrivals and n_leaves == o.capacity:
                f.bump(f.stats['reach'], 'buffer_full')
            self.prev[b] = stored
        self.ev(f, 'C05', len(f.buffers))




# ===========================================================================
# C03 no lost wake-up (forked what-if probe at every clock advance)
# ===========================================================================
def ready_parts(f):
    """[(holder name, item)] parts that are ready to leave an operational holder."""
    out = []
    env = f.env
    for n in f.holders:
        k, o = f.kind[n], f.dev[n]
        if k == 'sink' or not o.is_operational():
            continue
        if k == 'source':
            if o._output is not None and o.remaining_parts >= 1:
                out.append((n, o._output))
        elif k == 'buffer':
            if o._buffer:
                t_in, item = o._buffer[0]
                if o.minimum_delay - (env.now - t_in) <= math.ulp(env.now):
                    out.append((n, item))
        elif o._output is not None:
            out.append((n, o._output))
    return out


def probe_offers(f, ready):
    """In a forked child, offer every ready part to its holder's sorted
    downstream list with the real give_part.  Returns the first acceptance
    (holder, part name, taker name) or None.  The parent is untouched."""
    r, w = os.pipe()
    pid = os.fork()
    if pid == 0:
        code = 0
        try:
            os.close(r)
            msg = b''
            try:
                for n, item in ready:
                    o = f.dev[n]
                    for dwn in o.get_sorted_downstream_list():
                        if dwn.give_part(item):
                            msg = f'{n}|{item.name}|{getattr(dwn, "name", "?")}'.encode()
                            break
                    if msg:
                        break
            except BaseException as ex:  # library raised inside the what-if: report, do not judge
                msg = f'!EXC|{type(ex).__name__}: {ex}'.encode()
            os.write(w, msg or b'-')
        finally:
            os._exit(code)
    os.close(w)
    data = b''
    while True:
        chunk = os.read(r, 4096)
        if not chunk:
            break
        data += chunk
    os.close(r)
    os.waitpid(pid, 0)
    if not data:
        raise HarnessError('probe child died without an answer')
    s = data.decode()
    if s == '-':
        return None
    if s.startswith('!EXC|'):
        return ('!EXC', s[5:], '')
    return tuple(s.split('|'))


class C03Monitor(Monitor):
    def quiescent(self, f):
        ready = ready_parts(f)
        self.ev(f, 'C03.a', len(ready))
        if not ready:
            return
        f.bump(f.stats['reach'], 'probes')
        f.bump(f.stats['reach'], 'blocked_parts_confirmed', len(ready))
        res = probe_offers(f, ready)
        if res is None:
            return
        if res[0] == '!EXC':
            f.fail('C03.b', f'offering a ready part raised {res[1]}', 'probe_exc')
        holder, part, taker = res
        f.fail('C03.a', f'lost wake-up: at t={f.env.now}, with no further event at this instant, {holder} '
               f'still holds ready part {part} although downstream {taker} accepts it when offered',
               'lost_wakeup', holder_kind=f.kind[holder])


BY_PROP = {
    'C02': [DownTracker, Census, C02Monitor],
    'C03': [C03Monitor],
    'C05': [C05Monitor],
}
