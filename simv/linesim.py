"""linesim: serial lines source -> stations -> sink compared, station by
station and part by part, with an independent blocking-after-service
(max-plus) recurrence.  No library code in the reference."""
from . import core
from .core import Violation, HarnessError, Aborted
from .floor import Floor

INF = float('inf')
NEG = float('-inf')


def reference(case):
    """-> (arrivals: list per station j=1..n+1 of [A(j,k) <= T], departures of the source)"""
    st = case['stations']
    n = len(st)
    c = [case['source']['ct']] + [(s['delay'] if s['k'] == 'buffer' else s['ct']) for s in st] + [case['sink']['ct']]
    K = [1] + [((INF if s['cap'] is None else int(s['cap'])) if s['k'] == 'buffer' else 1) for s in st] + [1]
    T = case['horizon']
    N = case['source']['parts']
    N = INF if N is None else N
    last = n + 1
    D = [[] for _ in range(n + 2)]    # D[j][k-1]
    A = [[] for _ in range(n + 2)]

    def dget(j, k):
        if k < 1:
            return NEG
        return D[j][k - 1]

    k = 0
    while k < N:
        k += 1
        # arrivals and departures of part k, station by station; D(j,k) needs D(j+1, k-K) with k-K < k
        for j in range(0, n + 2):
            if j == 0:
                a = 0 if k == 1 else dget(0, k - 1)
            else:
                a = D[j - 1][k - 1]
            A[j].append(a)
            if j == last:
                D[j].append(a + c[j])
            else:
                kk = K[j + 1]
                nxt = NEG if kk == INF else dget(j + 1, k - kk)
                D[j].append(max(a + c[j], dget(j, k - 1), nxt))
        if A[1][k - 1] > T or k > 200000:
            break
    arr = [[a for a in A[j] if a <= T] for j in range(1, n + 2)]
    dep0 = [d for d in D[0] if d <= T]
    return arr, dep0


def to_floor_spec(case):
    devs = [{'k': 'source', 'n': 'S0', 'ct': case['source']['ct'], 'parts': case['source']['parts'],
             'gen': {'mode': 'single', 'value': 1, 'quality': 1}}]
    prev = 'S0'
    for i, s in enumerate(case['stations']):
        d = dict(s)
        d['n'] = f'D{i + 1}_0'
        d['up'] = [prev]
        prev = d['n']
        devs.append(d)
    devs.append({'k': 'sink', 'n': 'K0', 'up': [prev], 'ct': case['sink']['ct']})
    return {'engine': 'floorsim', 'devices': devs, 'resources': {}, 'maintainer': None, 'ops': [],
            'plan': list(case['plan']) if case.get('plan') and sum(case['plan']) == case['horizon'] else [case['horizon']],
            'tiebreak': case['tiebreak'],
            'id_offset': case.get('id_offset', 0)}


def run_case(case):
    spec = to_floor_spec(case)
    f = Floor(spec, [], 'C04')
    try:
        stats, dg = f.run()
    except core.Starved:
        # simulate() returned without dispatching anything: judge it by what it recorded
        stats, dg = f.stats, '0'
    except (HarnessError, core.RunTimeout, Violation):
        raise
    except core.StepCap as e:
        raise Aborted(str(e), f.stats)
    except Exception as e:
        if not core.raised_in_library(e):
            raise
        v = Violation('C04.x', f'exception escaped the simulation of a serial line: {type(e).__name__}: {e}',
                      step=f.step_no, time=getattr(f.env, 'now', None), extra={'kind': 'exception', 'exc': type(e).__name__})
        v.stats = f.stats
        raise v
    arr, dep0 = reference(case)
    sd = f.env.simulation_data
    names = [d['n'] for d in spec['devices'][1:]]
    stats['stations'] = len(names) - 1
    stats['arrivals_compared'] = 0
    for j, nm in enumerate(names):
        got = [r[0] for r in sd.get('received_part', {}).get(nm, [])]
        stats['arrivals_compared'] += len(got)
        if got != arr[j]:
            i = next((i for i, (g, w) in enumerate(zip(got, arr[j])) if g != w), min(len(got), len(arr[j])))
            g = got[i] if i < len(got) else None
            w = arr[j][i] if i < len(arr[j]) else None
            v = Violation('C04.a', f'station {j + 1} ({spec["devices"][j + 1]["k"]} {nm}): part #{i + 1} entered at {g}, '
                          f'the recurrence says {w} ({len(got)} arrivals recorded, {len(arr[j])} expected)',
                          step=f.step_no, time=f.env.now,
                          extra={'kind': 'early' if (g is not None and (w is None or g < w)) else 'late'})
            v.stats = stats
            raise v
    got0 = [r[0] for r in sd.get('supplied_new_part', {}).get('S0', [])]
    if got0 != dep0:
        v = Violation('C04.a', f'source departures {got0[:8]}... differ from the recurrence {dep0[:8]}...',
                      step=f.step_no, time=f.env.now, extra={'kind': 'source'})
        v.stats = stats
        raise v
    want = case.get('expect_sink_count')
    cnt = f.dev['K0'].received_parts_count
    if cnt != len(arr[-1]):
        v = Violation('C04.a', f'sink received {cnt} parts, the recurrence says {len(arr[-1])}',
                      extra={'kind': 'count'})
        v.stats = stats
        raise v
    if want is not None and cnt != want:
        v = Violation('C04.b', f'example line delivers {cnt} parts, documented count is {want}',
                      extra={'kind': 'documented'})
        v.stats = stats
        raise v
    stats['sink_count'] = cnt
    return stats, dg


CTS = (0, 0.25, 0.5, 1, 1.5, 2, 3)


def _wellposed_zero_source(case):
    """an unlimited zero-cycle source needs a positive-time finite stage with only finite buffers before it"""
    for s in case['stations']:
        if s['k'] == 'buffer':
            if s['cap'] is None:
                return False
            if s['delay'] > 0:
                return True
        elif s['ct'] > 0:
            return True
    return case['sink']['ct'] > 0


def gen_case(rng):
    n = rng.choice((0, 1, 1, 2, 2, 3, 3, 4, 5, 6))
    st = []
    for _ in range(n):
        k = rng.choice(('handler', 'proc', 'proc', 'buffer', 'buffer'))
        if k == 'buffer':
            st.append({'k': 'buffer', 'cap': rng.choice((1, 2, 3, 5, None, 2.5)), 'delay': rng.choice((0, 0, 0.25, 0.5, 1, 2))})
        else:
            st.append({'k': k, 'ct': rng.choice(CTS)})
    case = {'engine': 'linesim', 'stations': st,
            'source': {'ct': rng.choice(CTS), 'parts': rng.choice((None, None, None, None, 1, 1, 2, 2, 5, 5, 12, 12, 25, 25, 0))},
            'sink': {'ct': rng.choice((0, 0, 0.25, 0.5, 1, 2))},
            'horizon': rng.choice((0, 1, 2.5, 5, 10, 20, 50)),
            'tiebreak': core.gen_tiebreak(rng), 'id_offset': rng.choice((0, 0, 5, 1000))}
    if case['source']['ct'] == 0 and case['source']['parts'] is None and not _wellposed_zero_source(case):
        case['source']['parts'] = rng.choice((3, 12, 25))
    if rng.random() < 0.06:
        # a much finer (still exactly representable) grid for the source: arrivals 2**-30 apart meet delays of 1/4 .. 2
        case['source']['ct'] = 2.0 ** -30
        case['source']['parts'] = rng.choice((2, 4, 8))
    if rng.random() < 0.2 and case['horizon'] > 0:
        # the same horizon reached by two or three consecutive simulate() calls: the recurrence knows no runs
        h = case['horizon']
        cuts = sorted(rng.sample([x * 0.25 for x in range(1, int(h * 4))] or [h / 2], rng.choice((1, 1, 2))) if h * 4 > 2 else [h / 2])
        plan, prev = [], 0
        for c in cuts + [h]:
            plan.append(c - prev)
            prev = c
        case['plan'] = plan
    return case


EXAMPLES = [
    # examples/SingleProcessor.py: documented 99 parts
    {'engine': 'linesim', 'stations': [{'k': 'proc', 'ct': 1}], 'source': {'ct': 1, 'parts': None},
     'sink': {'ct': 0}, 'horizon': 100, 'expect_sink_count': 99, 'example': 'SingleProcessor'},
    # examples/BufferExample.py: documented 10079 parts
    {'engine': 'linesim', 'stations': [{'k': 'proc', 'ct': 1}, {'k': 'buffer', 'cap': 5, 'delay': 0}, {'k': 'proc', 'ct': 1}],
     'source': {'ct': 0, 'parts': None}, 'sink': {'ct': 0}, 'horizon': 60 * 24 * 7, 'expect_sink_count': 10079,
     'example': 'BufferExample'},
]


def shrink(case):
    st = case['stations']
    if case.get('plan'):
        c = dict(case)
        del c['plan']
        yield c
        if len(case['plan']) > 2:
            c = dict(case)
            c['plan'] = [case['plan'][0], sum(case['plan'][1:])]
            yield c
    for i in range(len(st)):
        c = dict(case)
        c['stations'] = st[:i] + st[i + 1:]
        if not (c['source']['ct'] == 0 and c['source']['parts'] is None and not _wellposed_zero_source(c)):
            yield c
    if case['horizon'] > 1:
        for h in (case['horizon'] / 2, case['horizon'] - 1):
            c = dict(case)
            c['horizon'] = int(h * 4) / 4
            c.pop('plan', None)
            if c['horizon'] > 0:
                yield c
    if case['source']['parts'] is None or case['source']['parts'] > 3:
        c = dict(case)
        c['source'] = dict(case['source'], parts=3)
        yield c
    for i, s in enumerate(st):
        for key in ('ct', 'delay'):
            if s.get(key) not in (None, 0, 1):
                for v in (0, 1):
                    c = dict(case)
                    c['stations'] = st[:i] + [dict(s, **{key: v})] + st[i + 1:]
                    if not (c['source']['ct'] == 0 and c['source']['parts'] is None and not _wellposed_zero_source(c)):
                        yield c
    if case['tiebreak'].get('mode') != 'const':
        c = dict(case)
        c['tiebreak'] = {'mode': 'const', 'seed': 0}
        yield c
