from ._floorprop import FloorProp


class C13(FloorProp):
    id = 'C13'
    profile = 'c13'
    crash_every = 3
    design_ref = 'DESIGN.md section 4 / C13'
    budgets = {'quick': 30000, 'thorough': 600000}


PROP = C13()
