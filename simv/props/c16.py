from ._floorprop import FloorProp


class C16(FloorProp):
    id = 'C16'
    profile = 'c16'
    design_ref = 'DESIGN.md section 4 / C16'
    budgets = {'quick': 20000, 'thorough': 400000}


PROP = C16()
