#!/bin/sh
# tools/patchall.sh <patch.diff> [runs]: apply a patch to a scratch export of /repo HEAD, run the 150 tests and EVERY check
# (reduced budget) against it; prints the checks that do not exit 0.  Used for behaviour-preserving changes: nothing should be printed.
P="$1"; R="${2:-4000}"
D=$(mktemp -d /tmp/simv_pa.XXXXXX)
git -C /repo archive HEAD | tar -x -C "$D"
(cd "$D" && patch -p1 -s < "$P") || { echo "PATCH DID NOT APPLY"; rm -rf "$D"; exit 9; }
(cd $D && PYTHONPATH=$D /venv/bin/python -m pytest -q -p no:cacheprovider simprocesd/tests/model 2>&1 | tail -1)
for i in $(seq -w 1 20); do
  OUT=$(SIMV_NO_SHRINK=1 SIMV_REPLAY_DIR="$D/replays" SIMV_REPO="$D" /verif/check C$i --runs $R --workers 4 --no-evidence 2>&1); RC=$?
  [ $RC -ne 0 ] && echo "C$i exit=$RC $(echo "$OUT" | grep '^  C\|HARNESS' | head -2 | cut -c1-300)"
done
rm -rf "$D"; echo "done $P"
