"""C09 - resource pools: usage equals outstanding reservations; requests are atomic."""
from .. import core, poolsim
from ..driver import Prop


class C09(Prop):
    id = 'C09'
    design_ref = 'DESIGN.md section 4 / C09'
    budgets = {'quick': 200000, 'thorough': 1500000}

    def _n_sys(self, tier):
        return poolsim.sys_count(4) if tier == 'thorough' else poolsim.sys_count(3)

    def gen(self, rng, index, tier):
        if index < self._n_sys(tier):
            return poolsim.sys_case(index)
        return poolsim.gen_c09(rng)

    def run(self, case):
        return poolsim.run_c09(case)

    def shrink(self, case):
        return poolsim.shrink_c09(case)

    def nontrivial(self, stats):
        return stats.get('n_ops', 0) >= 2 and (stats.get('reserved_ok', 0) + stats.get('raised', 0)) >= 1


PROP = C09()
