from ._floorprop import FloorProp


class C05(FloorProp):
    id = 'C05'
    profile = 'c05'
    design_ref = 'DESIGN.md section 4 / C05'
    budgets = {'quick': 30000, 'thorough': 600000}


PROP = C05()
