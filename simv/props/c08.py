from ._floorprop import FloorProp


class C08(FloorProp):
    id = 'C08'
    profile = 'c08'
    design_ref = 'DESIGN.md section 4 / C08'
    budgets = {'quick': 10000, 'thorough': 300000}

    def gen(self, rng, index, tier):
        from .. import floorsim
        # every second run: parallel single-slot stations behind one holder (clause f, idle-longest choice)
        return floorsim.gen_case(rng, 'c08f' if index % 2 else 'c08', big=(tier == 'thorough' and index % 8 < 2))


PROP = C08()
