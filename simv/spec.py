"""Generator of complete, JSON-serialisable factory-floor specs (topology,
parameters, op/fault list, run plan, tie-break adversary, id offset).

A spec is well-posed in the sense of DESIGN.md 2.5: layered DAG (no
pass-through cycles), no batcher inside a group, zero-cycle sources have a
finite budget, gate predicates are pure functions of the part ordinal."""
from . import core

CT = (0, 0.25, 0.5, 0.5, 1, 1, 1.5, 2, 3)
CT_POS = (0.25, 0.5, 0.5, 1, 1, 1.5, 2, 3)
DELAY = (0, 0, 0.25, 1)
CAPS = (1, 2, 3, 5, None, 2.5)      # 2.5: a capacity that is not a whole number holds 2 parts
VALUES = (0, 1, 2.5, 4)
PRIO_POOL = (2, 3, 4, 5, 6, 7, 8, 9, 10, 11, 1.5, 4.5, 5.5, 6.5, 7.5, 8.5, 9.5, 11.5)

DEFAULT_PROFILE = dict(
    n_sources=(1, 1, 2), n_layers=(1, 2, 2, 3, 4), width=(1, 1, 2, 2, 3),
    kinds=dict(handler=3, proc=4, buffer=3, batcher=1, gates=1, path=2),
    p_resources=0.5, p_maintainer=0.5, p_batch_source=0.25, p_empty_batch=0.1,
    n_ops=(0, 2, 5, 10, 20, 40), horizon=(5, 10, 10, 20, 40),
    fault_kinds=('fail', 'shutdown', 'restore', 'wo', 'addres', 'block', 'adjust', 'rewire',
                 'offset', 'ct', 'wake', 'trywork'),
    p_split=0.3, p_nested=0.25, p_trace=0.0, p_rq=0.0, p_decimal=0.0, p_fanin=0.5, callbacks=True, starve=True,
    fail_down_bias=0.0,
)

PROFILES = {
    'default': {},
    'c01': dict(n_ops=(0, 2, 5, 10)),
    'c02': {},
    'c03': dict(kinds=dict(handler=2, proc=5, buffer=4, batcher=1, gates=1, path=2), p_resources=0.7,
                n_ops=(2, 5, 10, 20, 40), n_layers=(1, 2, 2, 3), horizon=(5, 10, 10, 20)),
    'c05': dict(p_decimal=0.15, kinds=dict(handler=2, proc=3, buffer=8, batcher=1, gates=0, path=2), p_batch_source=0.4,
                p_group_buffer=0.5,
                width=(2, 2, 3), n_sources=(1, 2, 2)),
    'c06': dict(kinds=dict(handler=4, proc=6, buffer=2, batcher=0, gates=1, path=1),
                fault_kinds=('fail', 'shutdown', 'restore', 'wo', 'offset', 'ct', 'block', 'wake', 'fail', 'shutdown', 'restore', 'wo'),
                n_ops=(0, 5, 10, 20, 40), p_maintainer=0.7, fail_down_bias=0.3),
    'c08': dict(kinds=dict(handler=3, proc=3, buffer=2, batcher=0.5, gates=3, path=5), p_front=0.08,
                fault_kinds=('fail', 'shutdown', 'restore', 'wo', 'addres', 'block', 'adjust', 'wake', 'rewire'),
                p_nested=0.4, width=(2, 2, 3)),
    'c08f': dict(kinds=dict(handler=4, proc=6, buffer=1, batcher=0, gates=0, path=0), width=(2, 3, 3), n_layers=(1, 1, 2),
                 p_fanin=1.0, p_front=0.3, p_resources=0.7, n_sources=(1, 1, 2), p_batch_source=0.0,
                 fault_kinds=('fail', 'shutdown', 'restore', 'wo', 'addres', 'block', 'block', 'block', 'wake'),
                 n_ops=(5, 10, 20, 40), sink_ct=(0, 0.5, 1, 2, 3)),
    'cp': dict(n_sources=(1,), n_layers=(1, 1, 2), width=(1, 1, 2), kinds=dict(handler=1, proc=6, buffer=1, batcher=0, gates=0, path=0.5),
               p_resources=0.4, p_maintainer=1.0, n_ops=(0,), horizon=(4, 6, 8), p_split=0.0, p_batch_source=0.1, starve=False),
    'c11': dict(kinds=dict(handler=2, proc=8, buffer=2, batcher=0, gates=1, path=3), p_resources=1.0,
                fault_kinds=('fail', 'shutdown', 'restore', 'wo', 'addres', 'addres', 'block', 'wake')),
    'c13': dict(kinds=dict(handler=3, proc=7, buffer=2, batcher=0, gates=1, path=1),
                fault_kinds=('fail', 'shutdown', 'restore', 'wo', 'fail', 'shutdown', 'restore', 'wo', 'block', 'wake', 'offset'),
                n_ops=(2, 5, 10, 20, 40), p_maintainer=0.8, fail_down_bias=0.3),
    'c14': dict(p_fanin=0.9, n_sources=(2, 2, 3), n_ops=(0, 2, 5, 10), p_rq=0.6, p_split=0.0, p_trace=0.0,
                fault_kinds=('fail', 'shutdown', 'restore', 'wo', 'addres', 'block', 'adjust', 'offset', 'ct', 'wake')),
    'c15': dict(p_trace=0.3, p_maintainer=0.7, p_split=0.5, p_empty_batch=0.25, p_batch_source=0.35, p_sched=0.4),
    'c16': dict(p_maintainer=0.8, p_batch_source=0.4, p_nested_batch=0.3,
                fault_kinds=('fail', 'shutdown', 'restore', 'wo', 'addres', 'block', 'adjust', 'rewire', 'offset', 'ct', 'wake',
                             'trywork', 'mkasset', 'mkasset')),
    'c17': dict(kinds=dict(handler=2, proc=2, buffer=3, batcher=6, gates=2, path=0.5), p_batch_source=0.7,
                p_empty_batch=0.3, fault_kinds=('fail', 'shutdown', 'restore', 'block', 'adjust', 'wake', 'addres')),
}


def profile(name):
    p = dict(DEFAULT_PROFILE)
    p.update(PROFILES.get(name, {}))
    return p


def _wchoice(rng, weights):
    items = [(k, w) for k, w in weights.items() if w > 0]
    tot = sum(w for _, w in items)
    x = rng.random() * tot
    for k, w in items:
        x -= w
        if x <= 0:
            return k
    return items[-1][0]


def _subset(rng, items, p_more=0.5):
    items = list(items)
    first = rng.choice(items)
    out = [first]
    for it in items:
        if it is not first and rng.random() < p_more * 0.6:
            out.append(it)
    return out


DEC_CT = (0, 0.1, 0.3, 0.334, 0.7, 1.1, 2.05)


def gen_spec(rng, profile_name='default', big=False):
    P = profile(profile_name)
    if big:
        # thorough tier: a quarter of the runs use larger models, longer horizons and denser fault schedules
        P = dict(P)
        P['n_layers'] = tuple(P['n_layers']) + (4, 5, 6)
        P['width'] = tuple(P['width']) + (3, 4)
        P['n_ops'] = tuple(x for x in P['n_ops'] if x) + (60, 80)
        P['horizon'] = tuple(P['horizon']) + (40, 80)
    decimal = rng.random() < P['p_decimal']
    global CT, DELAY
    saved = (CT, DELAY)
    if decimal:
        # non-dyadic times: only used by properties that grant a rounding tolerance (C05)
        CT, DELAY = DEC_CT, (0, 0.1, 0.334, 1.1)
    try:
        spec = _gen_spec(rng, profile_name, P)
    finally:
        CT, DELAY = saved
    if decimal:
        spec['decimal'] = True
    return spec


def _gen_spec(rng, profile_name, P):
    devices = []
    names = set()

    def add(d):
        assert d['n'] not in names, d['n']
        names.add(d['n'])
        devices.append(d)
        return d['n']

    # ---- resources ------------------------------------------------------
    resources = {}
    if rng.random() < P['p_resources']:
        for i in range(rng.choice((1, 1, 2))):
            resources[f'r{i}'] = rng.choice((0, 1, 1, 2, 3)) if rng.random() > 0.04 else 2 ** 24
    maint = None
    if rng.random() < P['p_maintainer']:
        maint = {'cap': rng.choice((0.5, 1, 1, 2, 3, None))}

    def mk_proc(name, up, in_group=None):
        d = {'k': 'proc', 'n': name, 'up': up, 'ct': rng.choice(CT)}
        if resources and rng.random() < 0.6:
            rs = rng.sample(sorted(resources), rng.randint(1, len(resources)))
            d['res'] = {r: rng.choice((1, 1, 2)) for r in rs}
            if rng.random() < 0.1:
                d['res'][rng.choice(sorted(resources))] = 0
            if rng.random() < 0.06:
                d['res']['r_undeclared'] = 0      # amount 0 of a resource nobody ever added: must be ignored
        if rng.random() < 0.5:
            d['addv'] = rng.choice((0.5, 1, 2))
        if rng.random() < P['p_rq']:
            d['rq'] = True
        if P['callbacks'] and rng.random() < 0.25:
            d['ctcb'] = [rng.choice(CT) for _ in range(rng.randint(2, 3))]
        d['wo'] = {'a': [rng.choice((0, 0.25, 0.5, 1, 2)), rng.choice((0, 0.5, 1, 1, 2)), rng.choice((0, 1, 3, -2))],
                   'b': [rng.choice((0, 0.5, 1.5, 3)), rng.choice((0, 1, 2, 4)), rng.choice((0, 2, -0.5))]}
        if rng.random() < 0.15:
            # the library's own PartProcessor (default work orders: duration, capacity and cost 0)
            d['plain'] = True
            d['wo'] = {'a': [0, 0, 0], 'b': [0, 0, 0]}
        if in_group:
            d['in'] = in_group
        return d

    def mk_handler(name, up, in_group=None):
        d = {'k': 'handler', 'n': name, 'up': up, 'ct': rng.choice(CT)}
        if P['callbacks'] and rng.random() < 0.15:
            d['ctcb'] = [rng.choice(CT) for _ in range(2)]
        if in_group:
            d['in'] = in_group
        return d

    # ---- groups (created up-front, used by >= 2 paths) --------------------
    kinds = dict(P['kinds'])
    n_groups = 0
    if kinds.get('path', 0) > 0 and rng.random() < min(0.9, 0.25 * kinds['path']):
        n_groups = rng.choice((1, 1, 2))
    groups = []          # names
    group_defs = {}
    pending_member_paths = []
    for g in range(n_groups):
        gname = f'G{g}'
        members = []
        nm = rng.choice((1, 1, 2, 2, 3))
        inner = None
        if groups and rng.random() < P['p_nested']:
            inner = rng.choice(groups)
        inner_pos = rng.randrange(nm) if inner is not None else -1
        prev = None
        parallel = nm >= 2 and inner is None and rng.random() < P.get('p_parallel_group', 0.25)
        for m in range(nm):
            mname = f'{gname}m{m}'
            up = [prev] if (prev and not parallel) else []
            if m == inner_pos:
                d = {'k': 'path', 'n': mname, 'group': inner, 'up': up, 'in': gname}
            elif rng.random() < 0.6:
                d = mk_proc(mname, up, gname)
            else:
                d = mk_handler(mname, up, gname)
            if rng.random() < P.get('p_group_buffer', 0.15) and d['k'] != 'path':
                # a small buffer inside the group
                # (with a minimum delay now and then: a part that comes through the group twice waits twice)
                d = {'k': 'buffer', 'n': mname, 'up': up, 'cap': rng.choice((1, 2, 2, 3)), 'delay': rng.choice((0, 0, 0.25, 0.5, 1)),
                     'in': gname}
            members.append(add(d))
            prev = mname
        gd = {'k': 'group', 'n': gname, 'members': members}
        if not parallel and inner_pos != 0 and rng.random() < P.get('p_fed_group', 0.15):
            # the entry device is given only as input_override (it is not in the devices list)
            fname = f'{gname}f'
            fd = mk_handler(fname, [], gname) if rng.random() < 0.5 else mk_proc(fname, [], gname)
            # it feeds the first listed device
            first = next(x for x in devices if x['n'] == members[0])
            first['up'] = [fname]
            devices.insert(devices.index(first), fd)
            names.add(fname)
            gd['inputs'] = [fname]
            gd['extra'] = [fname]
        if parallel:
            # a bank of parallel machines: every member is both an input and an output device of the group
            gd['inputs'] = list(members)
            gd['outputs'] = list(members)
        add(gd)
        group_defs[gname] = gd
        groups.append(gname)

    # ---- sources ---------------------------------------------------------
    layer = []
    for s in range(rng.choice(P['n_sources'])):
        ct = rng.choice(CT)
        parts = rng.choice((None, None, None, None, 3, 3, 6, 6, 12, 12, 25, 25, 0))
        if ct == 0 and parts is None:
            parts = rng.choice((3, 6, 12))
        gen = {'mode': 'single', 'value': rng.choice(VALUES), 'quality': rng.choice((1, 0.5))}
        if rng.random() < P['p_batch_source']:
            gen['mode'] = 'batch'
            sizes = [rng.choice((1, 2, 2, 3, 5)) for _ in range(rng.randint(1, 3))]
            if rng.random() < P['p_empty_batch']:
                sizes[rng.randrange(len(sizes))] = 0
            if rng.random() < 0.3:
                sizes.append(-1)    # -1 = a single part in a stream of batches
            gen['sizes'] = sizes
            gen['subclass'] = rng.random() < 0.4
            gen['nested'] = rng.random() < P.get('p_nested_batch', 0.0)
        layer.append(add({'k': 'source', 'n': f'S{s}', 'ct': ct, 'parts': parts, 'gen': gen}))

    # ---- layers ------------------------------------------------------------
    has_batch_items = any(d['k'] == 'source' and d['gen']['mode'] == 'batch' for d in devices)
    path_budget = {g: 0 for g in groups}
    all_layers = [layer]
    n_layers = rng.choice(P['n_layers'])
    for L in range(1, n_layers + 1):
        new_layer = []
        for i in range(rng.choice(P['width'])):
            kk = dict(kinds)
            if not groups:
                kk['path'] = 0
            kind = _wchoice(rng, kk)
            name = f'D{L}_{i}'
            up = _subset(rng, all_layers[-1], P['p_fanin'])
            if L >= 2 and rng.random() < 0.15:
                up = sorted(set(up + [rng.choice(all_layers[-2])]))
            if kind in ('handler', 'proc') and P.get('p_front') and rng.random() < P['p_front']:
                # a pass-through controller (gate that accepts everything, or a plain PartFlowController) in front of
                # the device: the device is still one of several parallel candidates of its upstreams
                add({'k': 'gate', 'n': f'{name}f', 'up': list(up), 'pred': ['all'], 'plain': rng.random() < 0.5})
                up = [f'{name}f']
            if kind == 'handler':
                new_layer.append(add(mk_handler(name, up)))
            elif kind == 'proc':
                new_layer.append(add(mk_proc(name, up)))
            elif kind == 'buffer':
                new_layer.append(add({'k': 'buffer', 'n': name, 'up': up, 'cap': rng.choice(CAPS),
                                      'delay': rng.choice(DELAY)}))
            elif kind == 'batcher':
                new_layer.append(add({'k': 'batcher', 'n': name, 'up': up,
                                      'size': rng.choice((None, None, 1, 2, 3, 4))}))
                has_batch_items = True
            elif kind == 'gates':
                m = rng.choice((2, 2, 3))
                if rng.random() < 0.85:
                    for r in range(m):
                        new_layer.append(add({'k': 'gate', 'n': f'{name}g{r}', 'up': list(up),
                                              'pred': ['mod', m, r]}))
                else:
                    new_layer.append(add({'k': 'gate', 'n': f'{name}g0', 'up': list(up),
                                          'pred': rng.choice((['all'], ['mod', 2, 0]))}))
            elif kind == 'path':
                g = rng.choice(groups)
                path_budget[g] += 1
                new_layer.append(add({'k': 'path', 'n': name, 'group': g, 'up': up}))
        all_layers.append(new_layer)
    # every group gets at least two paths (shared / re-entrant use)
    for g in groups:
        while path_budget[g] < 2 and len(all_layers) > 1:
            L = rng.randrange(1, len(all_layers))
            up = _subset(rng, all_layers[L - 1], P['p_fanin'])
            nm = f'D{L}_p{g}{path_budget[g]}'
            add({'k': 'path', 'n': nm, 'group': g, 'up': up})
            all_layers[L].append(nm)
            path_budget[g] += 1

    # ---- sinks --------------------------------------------------------------
    last = all_layers[-1]
    sinks = []
    for s in range(rng.choice((1, 1, 2))):
        sinks.append(add({'k': 'sink', 'n': f'K{s}', 'up': _subset(rng, last, 0.7),
                          'ct': rng.choice(P.get('sink_ct', (0, 0, 0.25, 0.5, 1, 2)))}))
    # every non-sink top-level device needs a downstream
    by_name = {d['n']: d for d in devices}
    has_down = set()
    for d in devices:
        if 'in' in d or d['k'] == 'group':
            continue
        for u in d.get('up', ()):
            has_down.add(u)
    for L, lay in enumerate(all_layers):
        for nm in lay:
            if nm in has_down:
                continue
            if L + 1 < len(all_layers) and all_layers[L + 1] and rng.random() < 0.6:
                tgt = by_name[rng.choice(all_layers[L + 1])]
            else:
                tgt = by_name[rng.choice(sinks)]
            tgt['up'] = tgt['up'] + [nm]
            has_down.add(nm)

    # construction order: group members and groups first, then top level by layer
    def lay(d):
        nm = d['n']
        if 'in' in d or d['k'] == 'group':
            return -1
        return 0 if nm[0] == 'S' else (99 if nm[0] == 'K' else int(nm[1:].split('_')[0]))
    devices.sort(key=lay)

    spec = {'engine': 'floorsim', 'profile': profile_name, 'resources': resources,
            'maintainer': maint, 'devices': devices}
    # ---- run plan, ops ----------------------------------------------------------
    horizon = rng.choice(P['horizon'])
    if rng.random() < P['p_split']:
        cuts = sorted(rng.sample([x * 0.25 for x in range(1, int(horizon * 4))],
                                 rng.choice((1, 1, 2))))
        plan, prev = [], 0
        for c in cuts + [horizon]:
            plan.append(c - prev)
            prev = c
    else:
        plan = [horizon]
    spec['plan'] = plan
    spec['ops'] = gen_ops(rng, spec, P, horizon)
    if P.get('p_sched') and rng.random() < P['p_sched']:
        # action schedulers (shift plans) with a harness object registered: their state changes are recorded too
        scheds = []
        for _ in range(rng.choice((1, 1, 2))):
            tt = [[rng.choice((0.25, 0.5, 1, 2, 2, 3, 0)), rng.choice(('on', 'off', 'on', 'x'))] for _ in range(rng.choice((1, 2, 2, 3, 4)))]
            if sum(x[0] for x in tt) == 0:
                tt[0][0] = 1
            scheds.append({'tt': tt, 'cyc': rng.random() < 0.7})
        spec['schedulers'] = scheds
    if 'offset' in P['fault_kinds'] and rng.random() < 0.2:
        # one-shot offsets requested after construction but before the first simulate() call
        timed = [d['n'] for d in devices if d['k'] in ('handler', 'proc', 'source', 'sink')]
        spec['pre'] = [{'op': 'offset', 'dev': rng.choice(timed), 'v': rng.choice((-1, -0.5, 0.25, 0.5, 1, 2))}
                       for _ in range(rng.choice((1, 1, 2)))]
    if 'adjust' in P['fault_kinds'] and rng.random() < 0.15:
        # the budget is adjusted after construction but before the first simulate() call
        fin = [d for d in devices if d['k'] == 'source' and d['parts'] is not None]
        if fin:
            d = rng.choice(fin)
            spec.setdefault('pre', []).append({'op': 'adjust', 'dev': d['n'], 'v': rng.choice((-2, -1, -1, 1, 3))})
    if len(plan) > 1 and rng.random() < 0.5:
        # public calls made between two simulate() calls (not from inside an event)
        spec['between'] = gen_between(rng, spec, P, len(plan) - 1)
    if 'adjust' in P['fault_kinds'] or 'offset' in P['fault_kinds']:
        # restock a source around the moment its budget runs out (while its next cycle may still be running)
        for d in devices:
            if d['k'] == 'source' and d['parts'] is not None and d['ct'] > 0 and rng.random() < 0.4:
                t = d['parts'] * d['ct'] + rng.choice((0, 0.25, 0.5, d['ct'] / 2, d['ct'], d['ct'] + 0.25, 2 * d['ct']))
                if t <= horizon:
                    spec['ops'].append({'t': t, 'pr': rng.choice(PRIO_POOL), 'op': 'adjust', 'dev': d['n'],
                                        'v': rng.choice((1, 2, 3))})
        spec['ops'].sort(key=lambda o: (o['t'], -o['pr']))
    spec['tiebreak'] = core.gen_tiebreak(rng)
    if P['starve'] and rng.random() < 0.12:
        cands = [d['n'] for d in devices if d['k'] in ('source', 'handler', 'proc', 'buffer', 'sink', 'batcher')]
        spec['tiebreak'] = {'mode': rng.choice(('starve_lose', 'starve_win')), 'seed': rng.randrange(2 ** 32),
                            'starve_dev': rng.choice(cands)}
    spec['id_offset'] = rng.choice((0, 0, 7, 1000, 123456))
    if rng.random() < P['p_trace']:
        # tracing can be switched on and off between simulate() calls
        spec['trace'] = True if len(spec['plan']) == 1 or rng.random() < 0.4 else [rng.random() < 0.6 for _ in spec['plan']]
        if isinstance(spec['trace'], list) and not any(spec['trace']):
            spec['trace'][0] = True
    return spec


def gen_between(rng, spec, P, n_gaps):
    devs = spec['devices']
    procs = [d['n'] for d in devs if d['k'] == 'proc']
    sources = [d['n'] for d in devs if d['k'] == 'source' and d['parts'] is not None]
    blockable = [d['n'] for d in devs if d['k'] in ('handler', 'proc', 'buffer', 'batcher', 'gate', 'path', 'sink')]
    out = []
    for gap in range(n_gaps):
        for _ in range(rng.choice((1, 1, 2, 3))):
            k = rng.choice([x for x in ('adjust', 'addres', 'block', 'restore', 'shutdown', 'wake', 'offset')
                            if x in P['fault_kinds']] or ['wake'])
            op = {'gap': gap, 'op': k}
            if k == 'adjust':
                if not sources:
                    continue
                op.update(dev=rng.choice(sources), v=rng.choice((1, 2, 3, -1)))
            elif k == 'addres':
                if not spec['resources']:
                    continue
                op.update(res=rng.choice(sorted(spec['resources'])), amt=rng.choice((1, 2, 3, -1)))
            elif k == 'block':
                op.update(dev=rng.choice(blockable), v=rng.random() < 0.3)
            elif k in ('restore', 'shutdown'):
                if not procs:
                    continue
                op.update(dev=rng.choice(procs))
            elif k == 'wake':
                op.update(dev=rng.choice(blockable[:-1] or blockable))
            elif k == 'offset':
                op.update(dev=rng.choice([d['n'] for d in devs if d['k'] in ('handler', 'proc', 'source', 'sink')]),
                          v=rng.choice((-1, 0.5, 1)))
            out.append(op)
    return out


def top_level(spec):
    return [d for d in spec['devices'] if 'in' not in d and d['k'] != 'group']


def gen_ops(rng, spec, P, horizon):
    n = rng.choice(P['n_ops'])
    if n == 0:
        return []
    devs = spec['devices']
    procs = [d['n'] for d in devs if d['k'] == 'proc']
    sources = [d['n'] for d in devs if d['k'] == 'source']
    blockable = [d['n'] for d in devs if d['k'] in ('handler', 'proc', 'buffer', 'batcher', 'gate', 'path', 'sink')]
    timed = [d['n'] for d in devs if d['k'] in ('handler', 'proc', 'source', 'sink')]
    wakeable = [d['n'] for d in devs if d['k'] in ('handler', 'proc', 'buffer', 'batcher', 'source', 'gate', 'path')]
    enabled = rng.sample(list(dict.fromkeys(P['fault_kinds'])),
                         rng.randint(1, len(set(P['fault_kinds']))))
    weights = [k for k in P['fault_kinds'] if k in enabled]
    tl = top_level(spec)
    layer_of = {}
    for d in tl:
        nm = d['n']
        layer_of[nm] = 0 if nm[0] == 'S' else (99 if nm[0] == 'K' else int(nm[1:].split('_')[0]))
    ops = []
    tgrid = [x * 0.25 for x in range(0, int(horizon * 4) + 1)]
    down_since = {}
    for _ in range(n):
        k = rng.choice(weights)
        t = rng.choice(tgrid)
        if rng.random() < 0.1:
            t += 0.125
        op = {'t': t, 'pr': rng.choice(PRIO_POOL), 'op': k}
        if k in ('fail', 'shutdown', 'restore', 'wo'):
            if not procs:
                continue
            op['dev'] = rng.choice(procs)
            if k == 'fail':
                op['d'] = rng.choice((0, 0, 0.25, 0.5, 1))
            if k == 'wo':
                if not spec['maintainer']:
                    continue
                op['tag'] = rng.choice(('a', 'a', 'b'))
            if k == 'shutdown' and rng.random() < 0.7:
                # pair it with a restore (and maybe a failure in between)
                dt = rng.choice((0, 0.25, 0.5, 1, 2, 3))
                ops.append({'t': t + dt, 'pr': rng.choice(PRIO_POOL), 'op': 'restore', 'dev': op['dev']})
                if rng.random() < P['fail_down_bias']:
                    ops.append({'t': t + rng.choice((0, 0.25, dt / 2 if dt else 0)), 'pr': rng.choice(PRIO_POOL),
                                'op': 'fail', 'dev': op['dev'], 'd': 0})
            if k == 'fail' and rng.random() < 0.8:
                ops.append({'t': t + op['d'] + rng.choice((0, 0.25, 0.5, 1, 2)), 'pr': rng.choice(PRIO_POOL),
                            'op': 'restore', 'dev': op['dev']})
        elif k == 'addres':
            if not spec['resources']:
                continue
            op['res'] = rng.choice(sorted(spec['resources']))
            op['amt'] = rng.choice((-3, -2, -1, -1, 1, 1, 2, 3, 0, -50))
        elif k == 'block':
            op['dev'] = rng.choice(blockable)
            op['v'] = rng.random() < 0.5
            if op['v'] and rng.random() < 0.8:
                ops.append({'t': t + rng.choice((0, 0.25, 0.5, 1, 2, 4)), 'pr': rng.choice(PRIO_POOL),
                            'op': 'block', 'dev': op['dev'], 'v': False})
        elif k == 'adjust':
            op['dev'] = rng.choice(sources)
            op['v'] = rng.choice((-5, -2, -1, 1, 1, 2, 3, 6))
        elif k == 'rewire':
            cands = [d for d in tl if d['k'] not in ('source',)]
            d = rng.choice(cands)
            L = layer_of[d['n']]
            ups = [x['n'] for x in tl if layer_of[x['n']] < L and x['k'] != 'sink']
            if not ups:
                continue
            op['dev'] = d['n']
            op['up'] = rng.sample(ups, 0 if rng.random() < 0.2 else rng.randint(1, min(3, len(ups))))
        elif k == 'offset':
            op['dev'] = rng.choice(timed)
            op['v'] = rng.choice((-2, -1, -0.5, -0.25, 0.25, 0.5, 1, 2))
        elif k == 'ct':
            op['dev'] = rng.choice(timed)
            op['v'] = rng.choice(CT_POS if op['dev'][0] == 'S' else CT)
        elif k == 'wake':
            op['dev'] = rng.choice(wakeable)
        elif k == 'trywork':
            if not spec['maintainer']:
                continue
        elif k == 'mkasset':
            op['v'] = rng.choice((1, 2.5, -3, 10))
            # asset names need not be unique: another asset called like the first device, or like the previous late one
            op['dup'] = rng.choice((None, None, 'device', 'late'))
        ops.append(op)
    ops.sort(key=lambda o: (o['t'], -o['pr']))
    return ops
