#!/bin/sh
# tools/reverify_seeded.sh [jobs]: re-verify every kept seeded change against /repo HEAD and the current checks
J="${1:-4}"
ls /verif/seeded | while read T; do
  P=$(echo $T | cut -d- -f1); R=$(echo $T | cut -d- -f2-)
  case "$R" in w2-*) W="--wave=w2"; K=$(echo $R | cut -d- -f2);; *) W=""; K=$R;; esac
  echo "$P $K $W"
done | xargs -P "$J" -L 1 sh -c '/verif/tools/harvest.py $0 $1 $2 | /venv/bin/python -c "
import json,sys
d=json.load(sys.stdin)
c=d[\"checks\"][d[\"property\"]]
print(d[\"property\"], sys.argv[1], sys.argv[2], \"confirmed\" if d[\"confirmed\"] else \"NOT-CONFIRMED\", \"caught\" if c[\"exit\"]==1 else \"MISSED exit=%s\" % c[\"exit\"])" $1 "$2"'
