#!/venv/bin/python
"""Regenerate MANIFEST.json from the property registry (run from /verif)."""
import json, os, sys
sys.path.insert(0, os.path.dirname(os.path.dirname(os.path.abspath(__file__))))
from simv import props

NOT_BUILT = 'check not built yet in this round (planned, see DESIGN.md section 4)'
TECH = 'deterministic simulation with fault injection: seeded search over schedules, tie-break adversaries and fault sequences, invariants after every dispatched event'
checks, na, served = [], [], []
for pid in props.IDS:
    try:
        p = props.get(pid)
    except ModuleNotFoundError:
        na.append({'property_id': pid, 'reason': NOT_BUILT})
        continue
    from simv.driver import _apply_meta
    _apply_meta(p)
    served.append(pid)
    checks.append({
        'property_id': pid,
        'quick_cmd': f'./check {pid} --tier quick',
        'thorough_cmd': f'./check {pid} --tier thorough',
        'evidence_file': f'/verif/evidence/{pid}.json',
        'replay_cmd_template': f'./check {pid} --replay {{path}}',
        'engine': 'simv',
        'level_claimed': {'category': 'exploration', 'text': p.level_text, 'design_ref': p.design_ref},
        'level_note': p.level_note,
        'technique': getattr(p, 'technique', TECH),
    })
m = {
    'version': 1,
    'setup_cmd': '/venv/bin/python -B tools/setup_check.py',
    'hooks': {'guard': 'SIMPROCESD_VERIF', 'enable': 'no source hooks: every seam is a module/class attribute patched from /verif at import time (simv/core.py); the guard name is reserved and unused',
              'baseline_off_cmd': 'cd /repo && /venv/bin/python -m pytest -q -p no:cacheprovider --timeout=900 --continue-on-collection-errors',
              'source_commits': [], 'add_only': True},
    'engines': [{'name': 'simv', 'path': '/verif/simv', 'serves_properties': served,
                 'kind_free_text': 'in-process deterministic simulator harness around the real simprocesd.model code: seeded tie-break adversary, fault/op schedules injected through the real event queue, lockstep reference models and per-event invariants, fork pool, shrinker, JSON replay'}],
    'checks': checks,
    'not_applicable': na,
    'notes': 'Exit codes: 0 held (possibly with KNOWN-FINDING lines), 1 unlisted violation, 3 harness error (never reported as success). VERIF_SEED and VERIF_TIER honoured. Budgets are run counts, so a verdict is a function of (VERIF_SEED, tree).',
}
with open('MANIFEST.json', 'w') as f:
    json.dump(m, f, indent=1)
print('checks:', served, 'n/a:', [x['property_id'] for x in na])
