#!/bin/sh
# tools/mutall.sh <file-relative-to-simprocesd> <sed-expr> [runs]: run EVERY check against one edited scratch copy
set -e
F="$1"; E="$2"; R="${3:-3000}"
D=$(mktemp -d /tmp/simv_mut.XXXXXX)
cp -r /repo/simprocesd "$D/simprocesd"
sed -i "$E" "$D/simprocesd/$F"
if diff -q /repo/simprocesd/$F "$D/simprocesd/$F" >/dev/null; then echo "MUTATION DID NOT APPLY"; rm -rf "$D"; exit 9; fi
diff /repo/simprocesd/$F "$D/simprocesd/$F" | head -6
set +e
(cd $D && PYTHONPATH=$D /venv/bin/python -m pytest -q -p no:cacheprovider $D/simprocesd/tests/model 2>&1 | tail -1)
for i in $(seq -w 1 20); do
  OUT=$(SIMV_NO_SHRINK=1 SIMV_REPLAY_DIR="$D/replays" SIMV_REPO="$D" /verif/check C$i --runs $R --workers 4 --no-evidence 2>&1); RC=$?
  [ $RC -ne 0 ] && echo "C$i exit=$RC $(echo "$OUT" | grep '^  C' | head -1 | cut -c1-220)"
done
rm -rf "$D"; echo done
