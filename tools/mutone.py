#!/venv/bin/python
"""tools/mutone.py <mutant id as printed by mutsummary, e.g. part_handler.py:93:boolop:36> <check ids...> [--runs N]:
apply one first-order mutant (tools/mutate.py numbering) to a scratch copy of the library and run the given checks
against it at the full quick budget (or --runs)."""
import os, shutil, subprocess, sys, tempfile
sys.path.insert(0, os.path.dirname(os.path.abspath(__file__)))
import mutate
mid = sys.argv[1]
args = sys.argv[2:]
runs = None
if '--runs' in args:
    i = args.index('--runs'); runs = args[i + 1]; args = args[:i] + args[i + 2:]
fname, line, kind, idx = mid.split(':')
path = next(f for f in mutate.FILES if f.endswith('/' + fname))
ms = mutate.mutants_of(path)
m = ms[int(idx)]
assert m['line'] == int(line) and m['kind'] == kind, (m['line'], m['kind'])
d = tempfile.mkdtemp(prefix='simv_mut1.')
try:
    shutil.copytree('/repo/simprocesd', os.path.join(d, 'simprocesd'))
    open(os.path.join(d, path), 'w').write(m['text'])
    print(f"{mid}: {m['old']!r} => {m['new']!r}")
    for c in args:
        env = dict(os.environ, SIMV_REPO=d, SIMV_REPLAY_DIR=os.path.join(d, 'replays'), SIMV_NO_SHRINK='1')
        cmd = ['/verif/check', c, '--no-evidence'] + (['--runs', runs] if runs else [])
        p = subprocess.run(cmd, env=env, capture_output=True, text=True)
        lines = [l for l in p.stdout.splitlines() if l.startswith('  C') or 'tier=' in l or 'HARNESS' in l]
        print(f'  {c} exit={p.returncode} ' + ' | '.join(x.strip()[:160] for x in lines[:2]))
finally:
    shutil.rmtree(d, ignore_errors=True)
