"""C12 - maintainer: capacity, one order per target, request order, exact durations."""
from .. import core, maintsim
from ..driver import Prop


class C12(Prop):
    id = 'C12'
    design_ref = 'DESIGN.md section 4 / C12'
    budgets = {'quick': 100000, 'thorough': 1000000}

    def gen(self, rng, index, tier):
        return maintsim.gen_case(rng)

    def run(self, case):
        return maintsim.run_case(case)

    def shrink(self, case):
        return maintsim.shrink(case)

    def nontrivial(self, stats):
        return stats.get('orders_started', 0) >= 1


PROP = C12()
