"""Batch driver: seeds -> cases -> guarded runs on a fork pool -> minimise ->
replay file -> VIOLATION / KNOWN-FINDING lines -> evidence file."""
import concurrent.futures as cf
import faulthandler
import json
import multiprocessing as mp
import os
import random
import subprocess
import sys

from . import core
from .core import HarnessError, derive_seed, run_guarded, digest

VERIF = core.VERIF_DIR
EVIDENCE_DIR = os.path.join(VERIF, 'evidence')
REPLAY_DIR = os.environ.get('SIMV_REPLAY_DIR') or os.path.join(VERIF, 'replays')
KNOWN_FILE = os.path.join(VERIF, 'known_findings.json')

_PROP = None  # set before the pool forks


class Prop:
    """Base class of a property check."""
    id = 'C00'
    design_ref = ''
    level = 'exploration'
    level_text = ''
    level_note = ''
    budgets = {'quick': 100, 'thorough': 1000}
    timeout_s = 20.0
    max_aborted_fraction = 0.002
    assumptions = []
    rule = ''
    real_vs_stub = {}
    shrink_budget = 300
    timeout_clause = None

    def gen(self, rng, index, tier):
        raise NotImplementedError

    def run(self, case):
        """-> (stats dict, digest str); raises core.Violation"""
        raise NotImplementedError

    def shrink(self, case):
        return iter(())

    def nontrivial(self, stats):
        return True

    def sanity(self, agg, tier):
        """-> list of harness-error strings (reach probes below their floor, fault kinds that never fired)"""
        from .props._meta import META
        m = META.get(self.id, {})
        errs = []
        scale = 1.0 if tier == 'thorough' else 1.0
        for k, floor in m.get('reach', {}).items():
            if agg.get('reach', {}).get(k, 0) < floor * scale and self._full_budget:
                errs.append(f'{self.id}: reach probe {k}={agg.get("reach", {}).get(k, 0)} below floor {floor}')
        for k in m.get('faults', ()):
            if agg.get('faults', {}).get(k, 0) == 0 and self._full_budget:
                errs.append(f'{self.id}: fault kind {k} never fired')
        for k, floor in m.get('sanity', {}).items():
            if agg.get(k, 0) < floor and self._full_budget:
                errs.append(f'{self.id}: counter {k}={agg.get(k, 0)} below floor {floor}')
        return errs

    _full_budget = True

    def sample_view(self, case):
        return case


def _apply_meta(prop):
    from .props._meta import META
    m = META.get(prop.id, {})
    for k in ('level_text', 'level_note', 'rule', 'real_vs_stub'):
        if k in m and not prop.__class__.__dict__.get(k):
            setattr(prop, k, m[k])
    if 'assumptions' in m and not getattr(prop, '_meta_applied', False):
        base = list(getattr(prop, 'base_assumptions', [])) or list(prop.assumptions)
        prop.assumptions = base + [a for a in m['assumptions'] if a not in base]
    elif not prop.assumptions and getattr(prop, 'base_assumptions', None):
        prop.assumptions = list(prop.base_assumptions)
    prop._meta_applied = True


def make_case(prop, verif_seed, tier, index):
    seed = derive_seed(verif_seed, prop.id, index)
    rng = random.Random(seed)
    case = prop.gen(rng, index, tier)
    case['_seed'] = seed
    case['_index'] = index
    return case


def _run_chunk(verif_seed, tier, start, end):
    """Runs cases [start, end); returns a compact summary: counters are merged here, only runs that did not end 'ok'
    (and the first three cases, as samples) travel back in full."""
    prop = _PROP
    faulthandler.enable()
    agg, runs, bad, samples = {}, [], [], []
    for i in range(start, end):
        faulthandler.dump_traceback_later(prop.timeout_s * 3 + 30, exit=True)
        try:
            case = make_case(prop, verif_seed, tier, i)
        except Exception as e:
            import traceback
            bad.append({'index': i, 'status': 'harness_error', 'violation': None, 'stats': {},
                        'digest': None, 'note': 'generator: ' + traceback.format_exc()[-2000:]})
            runs.append((i, 'harness_error', None, False))
            continue
        r = run_guarded(prop.run, case, prop.timeout_s, prop.timeout_clause)
        r['index'] = i
        _merge(agg, r['stats'])
        if r['status'] != 'ok':
            r['case'] = case
            bad.append(r)
            runs.append((i, r['status'], None, False))
        else:
            runs.append((i, 'ok', int(r['digest'], 16) if r['digest'] else 0, bool(prop.nontrivial(r['stats']))))
            if i < 3:
                samples.append((i, case))
    faulthandler.cancel_dump_traceback_later()
    return {'agg': agg, 'runs': runs, 'bad': bad, 'samples': samples}


def _merge(agg, stats):
    for k, v in stats.items():
        if isinstance(v, dict):
            _merge(agg.setdefault(k, {}), v)
        elif isinstance(v, bool):
            agg[k] = agg.get(k, 0) + int(v)
        elif isinstance(v, (int, float)):
            agg[k] = agg.get(k, 0) + v
        elif isinstance(v, list):
            agg.setdefault(k, [])
            if len(agg[k]) < 5:
                agg[k].extend(v[:5 - len(agg[k])])


def load_known():
    try:
        with open(KNOWN_FILE) as f:
            return json.load(f)
    except FileNotFoundError:
        return []


def match_known(prop_id, violation, known):
    for e in known:
        if e.get('status') != 'known' or e.get('property') != prop_id:
            continue
        if e.get('clause') and e['clause'] != violation['clause']:
            continue
        m = e.get('match', {})
        ex = violation.get('extra', {})
        if all(ex.get(k) == v for k, v in m.items()):
            return e
    return None


def _same_violation(v1, v2):
    return v1['clause'] == v2['clause'] and \
        v1.get('extra', {}).get('kind') == v2.get('extra', {}).get('kind')


def _shrink_task(case, violation):
    """Greedy reduction: accept any candidate that still violates the same
    clause (and the same 'kind' classification)."""
    prop = _PROP
    budget = prop.shrink_budget
    tmo = prop.timeout_s
    if violation.get('extra', {}).get('kind') in ('timeout', 'stepcap'):
        budget, tmo = min(budget, 40), min(tmo, 6.0)
    cur, curv = case, violation
    improved = True
    runs = 0
    while improved and runs < budget:
        improved = False
        for cand in prop.shrink(cur):
            runs += 1
            if runs > budget:
                break
            cand = dict(cand)
            cand['_seed'] = case.get('_seed')
            cand['_index'] = case.get('_index')
            r = run_guarded(prop.run, cand, tmo, prop.timeout_clause)
            if r['status'] == 'violation' and _same_violation(r['violation'], violation):
                cur, curv = cand, r['violation']
                improved = True
                break
    return cur, curv, runs


def write_replay(prop, case, violation, tag='min'):
    os.makedirs(REPLAY_DIR, exist_ok=True)
    name = f"{prop.id}-{case.get('_seed', 0)}-{violation['clause'].replace('.', '_')}.json"
    path = os.path.join(REPLAY_DIR, name)
    with open(path, 'w') as f:
        json.dump({'property': prop.id, 'case': case, 'expect': violation}, f, indent=1, sort_keys=True)
    return path


def replay_in_fresh_process(prop, path):
    """-> (reproduced: bool, output)"""
    env = dict(os.environ)
    env['PYTHONHASHSEED'] = '0'
    p = subprocess.run([os.path.join(VERIF, 'check'), prop.id, '--replay', path],
                       capture_output=True, text=True, env=env, timeout=600)
    return p.returncode == 1 and 'REPRODUCED' in p.stdout, p.stdout + p.stderr


def do_replay(prop, path):
    global _PROP
    _PROP = prop
    core.load_library()
    with open(path) as f:
        doc = json.load(f)
    case, expect = doc['case'], doc['expect']
    r = run_guarded(prop.run, case, prop.timeout_s * 3, prop.timeout_clause)
    if r['status'] == 'violation':
        v = r['violation']
        same = (v['clause'] == expect['clause'] and v['message'] == expect['message']
                and v.get('step') == expect.get('step'))
        print(f"replay: {v['clause']} step={v.get('step')} t={v.get('time')}: {v['message']}")
        if same:
            print('REPRODUCED exactly (clause, step, message)')
        else:
            print(f"DIFFERS from recorded: {expect['clause']} step={expect.get('step')}: {expect['message']}")
        print(f'VIOLATION property={prop.id} replay={path}')
        return 1
    print(f"replay: status={r['status']} note={r.get('note')}")
    print('NOT REPRODUCED')
    return 0 if r['status'] == 'ok' else 3


def run_check(prop, tier, verif_seed, n_runs=None, workers=None, write_evidence=True):
    global _PROP
    _PROP = prop
    t0 = core.wall()
    core.load_library()
    n = n_runs if n_runs is not None else prop.budgets[tier]
    prop._full_budget = n >= prop.budgets['quick']
    _apply_meta(prop)
    workers = workers or int(os.environ.get('SIMV_WORKERS', '0')) or min(16, os.cpu_count() or 1)
    chunk = max(1, min(250, n // (workers * 4) or 1))
    tasks = [(s, min(n, s + chunk)) for s in range(0, n, chunk)]
    harness_errors = []
    try:
        ctx = mp.get_context('fork')
        with cf.ProcessPoolExecutor(max_workers=workers, mp_context=ctx) as pool:
            futs = {pool.submit(_run_chunk, verif_seed, tier, s, e): (s, e) for s, e in tasks}
            chunks = {}
            for fut in cf.as_completed(futs):
                chunks[futs[fut][0]] = fut.result()
            # ---- reduce in index order (so the outcome does not depend on the worker count)
            agg = {}
            counts = {'ok': 0, 'violation': 0, 'aborted': 0, 'timeout': 0, 'harness_error': 0}
            digests = set()
            nontrivial_digests = set()
            samples = []
            viols = []
            aborted_seeds = []
            results = []
            for start in sorted(chunks):
                ch = chunks[start]
                _merge(agg, ch['agg'])
                for i, status, dg, nt in ch['runs']:
                    counts[status] += 1
                    if status == 'ok':
                        digests.add(dg)
                        if nt:
                            nontrivial_digests.add(dg)
                for i, case in ch['samples']:
                    if len(samples) < 3:
                        samples.append(prop.sample_view(case))
                for r in ch['bad']:
                    results.append(r)
                    if r['status'] == 'violation':
                        viols.append(r)
                    elif r['status'] == 'aborted':
                        aborted_seeds.append(r['case'].get('_seed'))
                    else:
                        harness_errors.append(f"index {r['index']}: {r['status']}: {(r.get('note') or '')[-1500:]}")

            # ---- violations: known findings, minimise, replay
            known = load_known()
            known_hits = {}
            reported = []
            seen_classes = set()
            for r in viols:
                v = r['violation']
                e = match_known(prop.id, v, known)
                if e is not None:
                    known_hits.setdefault(e['id'], [e, 0])[1] += 1
                    continue
                cls = (v['clause'], v.get('extra', {}).get('kind'))
                if cls in seen_classes or len(reported) >= 3:
                    continue
                seen_classes.add(cls)
                if os.environ.get('SIMV_NO_SHRINK'):     # mutation screening: first violation is enough
                    reported.append((write_replay(prop, r['case'], v), v, 0))
                    break
                case, vmin, nshrink = pool.submit(_shrink_task, r['case'], v).result(timeout=1800)
                e2 = match_known(prop.id, vmin, known)
                if e2 is not None:   # minimisation drifted into a listed finding: keep the original
                    case, vmin = r['case'], v
                path = write_replay(prop, case, vmin)
                ok, out = replay_in_fresh_process(prop, path)
                if not ok:
                    harness_errors.append(f'minimised replay did not reproduce: {path}\n{out[-800:]}')
                    path = write_replay(prop, r['case'], v)
                reported.append((path, vmin, nshrink))
    except cf.process.BrokenProcessPool as e:
        print(f'HARNESS-ERROR property={prop.id} worker died: {e}')
        return 3

    for kid, (e, cnt) in sorted(known_hits.items()):
        print(f"KNOWN-FINDING: property={prop.id} {e['what']} [{kid}; {cnt} runs]")
    for path, v, nshrink in reported:
        print(f"  {v['clause']} step={v.get('step')} t={v.get('time')}: {v['message']} (shrink runs: {nshrink})")
        print(f'VIOLATION property={prop.id} replay={path}')

    done = counts['ok'] + counts['violation'] + counts['aborted']
    if done and counts['aborted'] / done > prop.max_aborted_fraction:
        notes = [r.get('note') for r in results if r['status'] == 'aborted'][:3]
        harness_errors.append(f"aborted fraction {counts['aborted']}/{done} above limit; e.g. {notes}")
    harness_errors.extend(prop.sanity(agg, tier))
    wall_s = core.wall() - t0

    n_viol = len(viols) - sum(c for _, c in known_hits.values())
    if write_evidence:
        cov = {
            'evaluations': n,
            'distinct_nontrivial': len(nontrivial_digests),
            'rule': prop.rule,
            'samples': samples or [prop.sample_view(make_case(prop, verif_seed, tier, 0))],
            'runs_by_status': counts,
            'distinct_run_digests': len(digests),
            'runs_per_hour': int(n / wall_s * 3600) if wall_s > 0 else 0,
            'counters': agg,
            'aborted_seeds': aborted_seeds[:20],
            'known_finding_runs': {k: c for k, (e, c) in known_hits.items()},
            'real_vs_stub': prop.real_vs_stub,
            'workers': workers,
            'harness_errors': harness_errors[:5],
        }
        ev = {'property_id': prop.id, 'tier': tier, 'seed': int(verif_seed), 'level': prop.level,
              'coverage': cov, 'assumptions': prop.assumptions, 'wall_s': round(wall_s, 2),
              'violations': n_viol}
        os.makedirs(EVIDENCE_DIR, exist_ok=True)
        tmp = os.path.join(EVIDENCE_DIR, f'.{prop.id}.json.tmp')
        with open(tmp, 'w') as f:
            json.dump(ev, f, indent=1, sort_keys=True, default=str)
        os.replace(tmp, os.path.join(EVIDENCE_DIR, f'{prop.id}.json'))

    print(f"{prop.id} tier={tier} seed={verif_seed} runs={n} ok={counts['ok']} "
          f"violations={n_viol} known={sum(c for _, c in known_hits.values())} aborted={counts['aborted']} "
          f"timeouts={counts['timeout']} harness_errors={counts['harness_error']} distinct={len(digests)} nontrivial={len(nontrivial_digests)} "
          f"wall={wall_s:.1f}s")
    for h in harness_errors[:5]:
        print('HARNESS-ERROR', h)
    if os.environ.get('SIMV_DEBUG'):
        for r in results:
            if r['status'] in ('aborted', 'timeout'):
                print('DEBUG', r['index'], r['status'], (r.get('note') or '')[:300])
    if reported:
        return 1
    if harness_errors or counts['timeout'] or counts['harness_error']:
        return 3
    if len(nontrivial_digests) < 2:
        print('HARNESS-ERROR fewer than 2 distinct non-trivial runs')
        return 3
    return 0
