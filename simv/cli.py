import argparse
import os
import sys

sys.dont_write_bytecode = True
sys.path.insert(0, os.path.dirname(os.path.dirname(os.path.abspath(__file__))))

from simv import core, driver, props  # noqa: E402


def main():
    ap = argparse.ArgumentParser()
    ap.add_argument('prop')
    ap.add_argument('--tier', default=os.environ.get('VERIF_TIER') or 'quick', choices=['quick', 'thorough'])
    ap.add_argument('--replay')
    ap.add_argument('--runs', type=int)
    ap.add_argument('--workers', type=int)
    ap.add_argument('--no-evidence', action='store_true')
    ap.add_argument('--selftest')
    a = ap.parse_args()
    seed = int(os.environ.get('VERIF_SEED') or 0)
    if a.prop == 'selftest':
        from simv import selftest
        return selftest.main(a.selftest, seed)
    prop = props.get(a.prop)
    if a.replay:
        return driver.do_replay(prop, a.replay)
    return driver.run_check(prop, a.tier, seed, a.runs, a.workers, write_evidence=not a.no_evidence)


def _main():
    # one scratch directory per invocation (the trace export writes below $HOME); removed whatever happens
    import shutil
    import tempfile
    top = os.getpid()
    base = tempfile.mkdtemp(prefix='simv_scratch_')
    os.environ['SIMV_SCRATCH'] = base
    try:
        return main()
    finally:
        if os.getpid() == top:
            shutil.rmtree(base, ignore_errors=True)


if __name__ == '__main__':
    sys.exit(_main())
