#!/bin/sh
# tools/mut.sh <file-relative-to-simprocesd> <sed-expr> <check args...>
# Scratch-copy the library, apply one sed edit, run a check against the copy, delete it.
set -e
F="$1"; E="$2"; shift 2
D=$(mktemp -d /tmp/simv_mut.XXXXXX)
cp -r /repo/simprocesd "$D/simprocesd"
sed -i "$E" "$D/simprocesd/$F"
if diff -q /repo/simprocesd/$F "$D/simprocesd/$F" >/dev/null; then echo "MUTATION DID NOT APPLY"; rm -rf "$D"; exit 9; fi
diff /repo/simprocesd/$F "$D/simprocesd/$F" | head -6
set +e
SIMV_REPLAY_DIR="$D/replays" SIMV_REPO="$D" /verif/check "$@" --no-evidence
RC=$?
rm -rf "$D"
echo "exit=$RC"
