"""C03 - no lost wake-up; finite-horizon runs return."""
from ._floorprop import FloorProp


class C03(FloorProp):
    id = 'C03'
    profile = 'c03'
    crash_every = 6
    design_ref = 'DESIGN.md section 4 / C03, 2.3'
    budgets = {'quick': 8000, 'thorough': 300000}
    timeout_s = 30.0
    timeout_clause = 'C03.b'
    level_text = ('Seeded search over random blocking-heavy models and fault schedules; at every instant at which the clock is '
                  'about to advance (and after each simulate call) a forked copy of the whole process offers every ready part of '
                  'every operational holder to its real downstream list: any acceptance is a lost wake-up. Termination is '
                  'checked by dispatch caps and a wall-clock alarm. Sampling, not proof.')
    level_note = ('Trusts fork() as a faithful copy of the system; "ready" is computed by the harness from private slots; '
                  'well-posedness rules of DESIGN.md 2.5.')
    rule = ('floorsim c03 profile (small buffers, slow sinks, pools dropping to 0, input blocks, budget raises, rewiring, '
            'failures with finished part waiting, shared groups). Non-trivial = >= 1 probe confirmed a blocked part and >= 2 '
            'parts generated; distinct = distinct dispatch-sequence digest.')
    assumptions = FloorProp.base_assumptions + [
        'a part is ready when it sits in an output slot of an operational holder (source: with budget left; buffer: head whose delay elapsed)',
        'any exception escaping simulate() and any run hitting the dispatch caps (200000 total, 20000 at one instant) or the 30 s alarm violates "the run returns"']

    def nontrivial(self, stats):
        return stats.get('reach', {}).get('probes', 0) >= 1 and stats.get('parts_generated', 0) >= 2


PROP = C03()
