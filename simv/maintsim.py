"""maintsim: a real Maintainer driven by generated request streams, in
lockstep with a reference maintainer (queue, active set, utilisation) fed
with the observed create_work_order calls and start/finish events."""
import itertools

from . import core
from .core import Violation, HarnessError, Aborted

INF = float('inf')


class MModel:
    def __init__(self, capacity):
        self.cap = capacity
        self.util = 0
        self.queue = []      # dict(target, tag, need, info)
        self.active = []     # same dicts, + 'started'
        self.selected = []   # selected, START event not yet executed

    def requested(self, target, tag):
        return any(o['target'] == target and o['tag'] == tag for o in self.queue + self.active)

    def scan(self):
        i = 0
        while i < len(self.queue):
            o = self.queue[i]
            busy = any(a['target'] == o['target'] for a in self.active)
            if self.util <= self.cap - o['need'] and not busy:
                self.queue.pop(i)
                self.active.append(o)
                self.selected.append(o)
                self.util += o['need']
            else:
                i += 1


class MaintRunner(core.Hooks):
    def __init__(self, case):
        self.case = case
        self.lib = core.load_library()
        self.step_no = 0
        self.stats = {'dispatches': 0, 'orders_created': 0, 'orders_rejected': 0, 'orders_started': 0,
                      'orders_finished': 0, 'reach': {}, 'sim_time': 0.0, 'hook_requests': 0}
        self.hook_log = []     # (kind, target, tag, now)
        self.hook_budget = case.get('hook_budget', 12)
        self.cost_total = 0
        self.exp_records = {'enter_queue': [], 'start_work_order': [], 'finish_work_order': []}
        self.trace = []

    def bump(self, k, n=1):
        self.stats['reach'][k] = self.stats['reach'].get(k, 0) + n

    def fail(self, clause, msg, kind):
        v = Violation(clause, msg, step=self.step_no, time=self.env.now, extra={'kind': kind})
        v.stats = self.stats
        raise v

    # ---- requests ------------------------------------------------------------------
    def request(self, tname, tag, info, origin):
        m, env = self.m, self.env
        tgt = self.targets[tname]
        exp = not m.requested(tname, tag)
        need = self.tspec[tname]['tags'][tag][1]
        got = self.maint.create_work_order(tgt, real_tag(tag), info)
        if got is not exp:
            self.fail('C12.a', f'create_work_order({tname}, {tag!r}) at {env.now} returned {got}; an identical order is '
                      f'{"not " if exp else ""}queued or in progress (queue {[(o["target"], o["tag"]) for o in m.queue]}, '
                      f'active {[(o["target"], o["tag"]) for o in m.active]})', 'return_value')
        if exp:
            self.stats['orders_created'] += 1
            m.queue.append({'target': tname, 'tag': tag, 'need': need, 'info': info})
            self.exp_records['enter_queue'].append((env.now, self.tspec[tname].get('name', tname), real_tag(tag), info))
            if need > m.cap:
                self.bump('need_above_total')
            m.scan()
        else:
            self.stats['orders_rejected'] += 1
        if origin != 'op':
            self.stats['hook_requests'] += 1
        self.check_state(f'create_work_order({tname}, {tag!r})')

    def check_state(self, what):
        m, mt = self.m, self.maint
        used = mt.total_capacity - mt.available_capacity if m.cap != INF else m.util
        if m.cap != INF:
            if mt.available_capacity != m.cap - m.util:
                self.fail('C12.c', f'after {what}: available capacity {mt.available_capacity}, reference says '
                          f'{m.cap - m.util} (active {[(o["target"], o["tag"], o["need"]) for o in m.active]})', 'capacity')
            if not (0 <= used <= m.cap):
                self.fail('C12.c', f'after {what}: capacity in use {used} outside [0, {m.cap}]', 'capacity_range')
        rq, ar = getattr(mt, '_request_queue', None), getattr(mt, '_active_requests', None)
        if rq is None or ar is None:
            return      # a different internal representation: the public observations above and the records remain
        if len(mt._request_queue) != len(m.queue) or len(mt._active_requests) != len(m.active):
            self.fail('C12.b', f'after {what}: maintainer has {len(mt._request_queue)} queued / '
                      f'{len(mt._active_requests)} active orders, reference has {len(m.queue)} / {len(m.active)}: '
                      f'queue {[(o["target"], o["tag"]) for o in m.queue]} active '
                      f'{[(o["target"], o["tag"]) for o in m.active]}', 'selection')
        got_q = [(r.target.key, spec_tag(r.tag)) for r in mt._request_queue]
        if got_q != [(o['target'], o['tag']) for o in m.queue]:
            self.fail('C12.b', f'after {what}: queue order {got_q}, reference {[(o["target"], o["tag"]) for o in m.queue]}',
                      'queue_order')
        got_a = sorted((r.target.key, str(spec_tag(r.tag))) for r in mt._active_requests)
        if got_a != sorted((o['target'], str(o['tag'])) for o in m.active):
            self.fail('C12.b', f'after {what}: active orders {got_a}, reference '
                      f'{sorted((o["target"], str(o["tag"])) for o in m.active)}', 'active_set')
        tg = [o['target'] for o in m.active]
        if len(tg) != len(set(tg)):
            self.fail('C12.c', f'after {what}: a target has two orders in progress: {tg}', 'target_twice')

    # ---- targets -----------------------------------------------------------------------
    def make_targets(self):
        lib, runner = self.lib, self

        class HTarget(lib.Maintainable):
            def __init__(self, name, spec):
                self.key = name
                self.name = spec.get('name', name)      # display names need not be unique
                self.spec = spec
                self.n_dur = 0

            def get_work_order_duration(self, tag):
                tag = spec_tag(tag)
                d = self.spec['tags'][tag][0]
                if isinstance(d, list):
                    v = d[self.n_dur % len(d)]
                    self.n_dur += 1
                    d = v
                runner.hook_log.append(('duration', self.key, tag, runner.env.now, d))
                return d

            def get_work_order_capacity(self, tag):
                return self.spec['tags'][spec_tag(tag)][1]

            def get_work_order_cost(self, tag):
                tag = spec_tag(tag)
                c = self.spec['tags'][tag][2]
                runner.hook_log.append(('cost', self.key, tag, runner.env.now, c))
                return c

            def start_work(self, tag):
                tag = spec_tag(tag)
                runner.hook_log.append(('start', self.key, tag, runner.env.now, None))
                runner.on_hook(self, 'start', tag)

            def end_work(self, tag):
                tag = spec_tag(tag)
                runner.hook_log.append(('end', self.key, tag, runner.env.now, None))
                runner.on_hook(self, 'end', tag)

        class HProcT(lib.PartProcessor):
            def __init__(self, name, spec, **kw):
                super().__init__(spec.get('name', name), **kw)
                self.key = name
                self.spec = spec
                self.n_dur = 0

            get_work_order_duration = HTarget.get_work_order_duration
            get_work_order_capacity = HTarget.get_work_order_capacity
            get_work_order_cost = HTarget.get_work_order_cost

            def start_work(self, tag):
                runner.hook_log.append(('start', self.key, spec_tag(tag), runner.env.now, None))
                super().start_work(tag)
                runner.on_hook(self, 'start', spec_tag(tag))

            def end_work(self, tag):
                runner.hook_log.append(('end', self.key, spec_tag(tag), runner.env.now, None))
                super().end_work(tag)
                runner.on_hook(self, 'end', spec_tag(tag))

        self.targets = {}
        self.tspec = {}
        for t in self.case['targets']:
            self.tspec[t['n']] = t
            if t.get('proc'):
                src = lib.Source(f"src_{t['n']}", cycle_time=1)
                p = HProcT(t['n'], t, upstream=[src], cycle_time=0.5)
                lib.Sink(f"snk_{t['n']}", upstream=[p])
                self.targets[t['n']] = p
            else:
                self.targets[t['n']] = HTarget(t['n'], t)

    def on_hook(self, tgt, kind, tag):
        for h in self.tspec[tgt.key].get('hooks', ()):
            if h['on'] == kind and h['tag'] == tag and self.hook_budget > 0:
                self.hook_budget -= 1
                self.bump('request_from_hook')
                self.request(h['target'], h['rtag'], f'hook:{tgt.name}', 'hook')

    # ---- dispatch hooks ---------------------------------------------------------------------
    def before_step(self, env):
        self.step_no += 1
        nxt = min(x.time for x in env._events)
        if nxt > env.now:
            self.quiescent()
        self.hook_len = len(self.hook_log)
        self.cur = None

    def on_execute(self, e):
        self.cur = e

    def after_step(self, env, e):
        self.stats['dispatches'] += 1
        m, ET = self.m, self.lib.EventType
        new = self.hook_log[self.hook_len:]
        starts = [h for h in new if h[0] == 'start']
        ends = [h for h in new if h[0] == 'end']
        is_maint = e is not None and e.asset_id == self.maint.id and not e.cancelled
        if is_maint and e.event_type == ET.START_WORK:
            if len(starts) != 1:
                self.fail('C12.d', f'START_WORK event at {env.now} called start hooks {starts}', 'start_hook_count')
            _, tname, tag, t, _ = starts[0]
            o = next((o for o in m.selected if o['target'] == tname and o['tag'] == tag), None)
            if o is None:
                self.fail('C12.b', f'order ({tname}, {tag!r}) started at {env.now} but the reference selected '
                          f'{[(x["target"], x["tag"]) for x in m.selected]}', 'unexpected_start')
            m.selected.remove(o)
            durs = [h for h in new if h[0] == 'duration' and h[1] == tname and h[2] == tag]
            costs = [h for h in new if h[0] == 'cost' and h[1] == tname and h[2] == tag]
            if len(durs) != 1 or len(costs) != 1:
                self.fail('C12.d', f'start of ({tname}, {tag!r}) queried duration {len(durs)} and cost {len(costs)} times',
                          'query_count')
            o['t_start'], o['dur'] = env.now, durs[0][4]
            self.cost_total += costs[0][4]
            self.exp_records['start_work_order'].append((env.now, self.tspec[tname].get('name', tname), real_tag(tag), o['info']))
            self.stats['orders_started'] += 1
            if o['dur'] == 0:
                self.bump('zero_duration_order')
        elif is_maint and e.event_type == ET.FINISH_WORK:
            if len(ends) != 1:
                self.fail('C12.d', f'FINISH_WORK event at {env.now} called end hooks {ends}', 'end_hook_count')
            _, tname, tag, t, _ = ends[0]
            o = next((o for o in m.active if o['target'] == tname and o['tag'] == tag and 't_start' in o), None)
            if o is None:
                self.fail('C12.d', f'order ({tname}, {tag!r}) finished at {env.now} but is not in progress', 'unexpected_finish')
            if env.now - o['t_start'] != o['dur']:
                self.fail('C12.d', f'order ({tname}, {tag!r}) started at {o["t_start"]} and finished at {env.now}; its '
                          f'target reported duration {o["dur"]} at start', 'duration')
            m.active.remove(o)
            m.util -= o['need']
            self.exp_records['finish_work_order'].append((env.now, self.tspec[tname].get('name', tname), real_tag(tag), o['info']))
            self.stats['orders_finished'] += 1
            m.scan()
        else:
            if starts or ends:
                self.fail('C12.d', f'start/end hooks {starts + ends} ran outside a work-order event', 'stray_hook')
        self.check_state(f'event at {env.now}')
        # (d) cost charged once per started order
        init = self.case['maintainer'].get('value', 0)
        if self.maint.value != init - self.cost_total:
            self.fail('C12.d', f'maintainer value {self.maint.value}, expected {init} - {self.cost_total}', 'cost')
        # (e) records
        sd = env.simulation_data
        for lab, exp in self.exp_records.items():
            got = sd.get(lab, {}).get(self.maint.name, [])
            if list(got) != exp:
                self.fail('C12.e', f'{lab} records {list(got)[-3:]} (n={len(got)}) differ from occurrences {exp[-3:]} '
                          f'(n={len(exp)})', 'records')
        if e is not None:
            self.trace.append((e.time, float(e.event_type)))
        if self.step_no > 20000:
            raise core.StepCap('maintsim step cap')

    def quiescent(self):
        m = self.m
        if m.selected:
            self.fail('C12.f', f'time advances from {self.env.now} but selected orders '
                      f'{[(o["target"], o["tag"]) for o in m.selected]} never started', 'selected_not_started')
        for o in m.queue:
            busy = any(a['target'] == o['target'] for a in m.active)
            if m.util <= m.cap - o['need'] and not busy:
                self.fail('C12.f', f'time advances from {self.env.now} while queued order ({o["target"]}, {o["tag"]!r}) '
                          f'fits (needs {o["need"]}, in use {m.util} of {m.cap}) and its target is free', 'fits_waiting')
        if m.queue:
            self.bump('quiescent_with_queue')

    # ---- run -------------------------------------------------------------------------------
    def run(self):
        lib, case = self.lib, self.case
        core.begin_run(self, None, case['tiebreak'], case.get('id_offset', 0))
        system = lib.System()
        self.env = system.env
        core.CURRENT.env = self.env
        cap = case['maintainer']['cap']
        cap = INF if cap is None else cap
        self.maint = lib.Maintainer(capacity=cap, value=case['maintainer'].get('value', 0))
        self.m = MModel(cap)
        self.make_targets()
        for i, op in enumerate(case['ops']):
            self.env.schedule_event(op['t'], -2, OpAct(self, i, op), op['pr'], f'maint op {i}')
        for dur in case['plan']:
            system.simulate(dur, print_summary=False)
            self.stats['sim_time'] += dur
            self.quiescent()
        if core.CURRENT.dispatches != core.CURRENT.executes or core.CURRENT.dispatches == 0:
            raise HarnessError('dispatch instrumentation starved or inconsistent')
        return self.stats, core.digest(self.trace)

    def exec_op(self, i, op):
        if op['op'] == 'wo':
            self.request(op['target'], op['tag'], f'op{i}', 'op')
        elif op['op'] == 'trywork':
            self.maint.try_working_requests()
            self.m.scan()
            self.bump('spurious_trywork')
            self.check_state('try_working_requests()')


class OpAct:
    def __init__(self, r, i, op):
        self.r, self.i, self.op = r, i, op
        self.__name__ = f'maint_op{i}'

    def __call__(self):
        self.r.exec_op(self.i, self.op)


def run_case(case):
    r = MaintRunner(case)
    try:
        return r.run()
    except (Violation, HarnessError, core.RunTimeout):
        raise
    except core.StepCap as e:
        raise Aborted(str(e), r.stats)
    except Exception as e:
        if not core.raised_in_library(e):
            raise
        import traceback
        w = traceback.extract_tb(e.__traceback__)[-1]
        v = Violation('C12.x', f'{type(e).__name__}: {e} at {w.filename.split("/")[-1]}:{w.lineno}', step=r.step_no,
                      time=getattr(getattr(r, 'env', None), 'now', None), extra={'kind': 'exception'})
        v.stats = r.stats
        raise v


TAGS = ('x', 'y', '~none')   # '~none' stands for tag=None (JSON keys cannot be None)


def real_tag(t):
    return None if t == '~none' else t


def spec_tag(t):
    return '~none' if t is None else t


def gen_case(rng):
    cap = rng.choice((0, 0.5, 1, 1, 2, 3, None))
    nt = rng.choice((1, 2, 2, 3, 4))
    targets = []
    for i in range(nt):
        tags = {}
        for tg in TAGS:
            dur = rng.choice((0, 0.25, 0.5, 1, 1, 2, 3))
            if rng.random() < 0.2:
                dur = [rng.choice((0, 0.5, 1, 2)) for _ in range(2)]
            tags[tg] = [dur, rng.choice((0, 0.5, 1, 1, 2, 4)), rng.choice((0, 1, 2.5, -1.5))]
        t = {'n': f'T{i}', 'tags': tags, 'hooks': []}
        if rng.random() < 0.2:
            t['name'] = 'press'      # two different machines may carry the same name
        targets.append(t)
    for t in targets:
        if rng.random() < 0.3:
            for _ in range(rng.choice((1, 1, 2))):
                t['hooks'].append({'on': rng.choice(('start', 'end')), 'tag': rng.choice(TAGS),
                                   'target': rng.choice(targets)['n'], 'rtag': rng.choice(TAGS)})
    if rng.random() < 0.3:
        targets[rng.randrange(nt)]['proc'] = True
    horizon = rng.choice((4, 8, 12))
    tgrid = [x * 0.25 for x in range(0, int(horizon * 4))]
    if rng.random() < 0.5:
        tgrid = rng.sample(tgrid, rng.choice((2, 3, 5)))
    ops = []
    for _ in range(rng.choice((2, 5, 10, 20, 40))):
        t = rng.choice(tgrid)
        pr = rng.choice((2, 2.5, 3, 3.5, 5, 8, 9.5, 10, 10.5, 11))
        if rng.random() < 0.9:
            ops.append({'t': t, 'pr': pr, 'op': 'wo', 'target': rng.choice(targets)['n'], 'tag': rng.choice(TAGS)})
        else:
            ops.append({'t': t, 'pr': pr, 'op': 'trywork'})
    ops.sort(key=lambda o: (o['t'], -o['pr']))
    # JSON cannot hold None keys: encode tag None as 'null' in the file
    plan = [horizon] if rng.random() < 0.7 else [horizon / 2, horizon / 2]
    return {'engine': 'maintsim', 'maintainer': {'cap': cap, 'value': rng.choice((0, 10))}, 'targets': targets,
            'ops': ops, 'plan': plan, 'tiebreak': core.gen_tiebreak(rng), 'id_offset': rng.choice((0, 50))}


def shrink(case):
    ops = case['ops']
    n = len(ops)
    size = n // 2
    while size >= 1:
        for i in range(0, n, size):
            c = dict(case)
            c['ops'] = ops[:i] + ops[i + size:]
            yield c
        size //= 2
    used = {o.get('target') for o in ops} | {h['target'] for t in case['targets'] for h in t.get('hooks', ())}
    for i, t in enumerate(case['targets']):
        if t['n'] not in used:
            c = dict(case)
            c['targets'] = case['targets'][:i] + case['targets'][i + 1:]
            if c['targets']:
                yield c
        if t.get('hooks'):
            c = dict(case)
            c['targets'] = case['targets'][:i] + [dict(t, hooks=[])] + case['targets'][i + 1:]
            yield c
        if t.get('proc'):
            c = dict(case)
            t2 = dict(t)
            t2.pop('proc')
            c['targets'] = case['targets'][:i] + [t2] + case['targets'][i + 1:]
            yield c
    if len(case['plan']) > 1:
        c = dict(case)
        c['plan'] = [sum(case['plan'])]
        yield c
    if case['tiebreak'].get('mode') != 'const':
        c = dict(case)
        c['tiebreak'] = {'mode': 'const', 'seed': 0}
        yield c
