#!/venv/bin/python
"""Summarise a tools/mutate.py result file: survivors of the test suite, which checks catch them, which nobody catches."""
import json, sys, collections
rows = [json.loads(l) for l in open(sys.argv[1])]
tot = len(rows)
surv = [r for r in rows if r.get('tests_pass')]
det = [r for r in surv if any(v == 1 for v in r['checks'].values())]
h3 = [r for r in surv if r not in det and any(v not in (0, 1) for v in r['checks'].values())]
und = [r for r in surv if r not in det and r not in h3]
print(f'mutants {tot}; killed by the 150 tests {tot - len(surv)}; survivors {len(surv)}; '
      f'survivors flagged by >=1 check (exit 1) {len(det)}; only harness-error exits {len(h3)}; flagged by nothing {len(und)}')
per = collections.Counter()
for r in det:
    for c, v in r['checks'].items():
        if v == 1:
            per[c] += 1
print('survivors caught per check:', dict(sorted(per.items())))
byfile = collections.defaultdict(lambda: [0, 0])
for r in surv:
    f = r['file'].split('/')[-1]
    byfile[f][0] += 1
    byfile[f][1] += r in det
print('per file (survivors, caught):', {k: tuple(v) for k, v in sorted(byfile.items())})
if '-v' in sys.argv:
    for r in und + h3:
        print(('H3 ' if r in h3 else 'UND'), r['id'], '|', r['old'].strip().replace('\n', ' ')[:50], '=>', r['new'].strip()[:50],
              {c: v for c, v in r['checks'].items() if v not in (0,)} or '')
