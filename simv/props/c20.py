"""C20 - system lifecycle: registration, single initialisation, late-created assets."""
from .. import core, lifesim
from ..driver import Prop


class C20(Prop):
    id = 'C20'
    design_ref = 'DESIGN.md section 4 / C20'
    budgets = {'quick': 60000, 'thorough': 800000}

    def gen(self, rng, index, tier):
        if index % 2:
            return lifesim.gen_c20_late(rng)
        if index % 4 == 0:
            # programs that never create a Source after the start (kept from the time when that was a listed known
            # finding: such a finding must not mask a different violation in the rest of the program)
            return lifesim.gen_c20_registry(rng, late_kinds=tuple(k for k in lifesim.ASSET_KINDS if k != 'source'))
        return lifesim.gen_c20_registry(rng)

    def run(self, case):
        if case['engine'] == 'lifesim_late':
            return lifesim.run_c20_late(case)
        return lifesim.run_c20_registry(case)

    def shrink(self, case):
        return lifesim.shrink_c20(case)

    def nontrivial(self, stats):
        return stats.get('late_scenarios', 0) >= 1 or stats.get('assets_created', 0) >= 2


PROP = C20()
