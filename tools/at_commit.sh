#!/bin/sh
# tools/at_commit.sh <commit> [patch.diff|-] <check args...>: run a check against an archived commit of /repo (+ optional patch)
set -e
C="$1"; P="$2"; shift 2
D=$(mktemp -d /tmp/simv_at.XXXXXX)
git -C /repo archive "$C" simprocesd | tar -x -C "$D"
if [ "$P" != "-" ]; then (cd "$D" && patch -p1 -s < "$P"); fi
set +e
SIMV_REPLAY_DIR="$D/replays" SIMV_REPO="$D" /verif/check "$@" --no-evidence
RC=$?
rm -rf "$D"
echo "exit=$RC"
