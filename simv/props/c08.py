from ._floorprop import FloorProp


class C08(FloorProp):
    id = 'C08'
    profile = 'c08'
    design_ref = 'DESIGN.md section 4 / C08'
    budgets = {'quick': 8000, 'thorough': 300000}


PROP = C08()
