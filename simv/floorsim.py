"""floorsim engine entry points: case generation, guarded execution with the
monitors of one property, shrinking of specs."""
import copy

from . import core, spec as specmod
from .core import Violation, HarnessError, Aborted
from .floor import Floor


def gen_case(rng, profile='default', big=False):
    return specmod.gen_spec(rng, profile, big)


def gen_crashpoint(rng):
    """A small base model run fault-free once; then one fault pattern is placed exactly at (and just before / after the
    priority of) one of the events that the fault-free run dispatched: faults land inside hand-overs, right at the
    end of a cycle, right at a restore..."""
    base = specmod.gen_spec(rng, 'cp')
    base['ops'] = []
    procs = [d['n'] for d in base['devices'] if d['k'] == 'proc']
    if not procs:
        return base
    f = Floor(base, [], 'C00')
    import signal

    def on_alarm(signum, frame):
        raise core.RunTimeout()
    old = signal.signal(signal.SIGALRM, on_alarm)
    signal.setitimer(signal.ITIMER_REAL, 5.0)
    try:
        f.run()
        events = [(t, float(pr)) for (t, who, act, pr) in f.trace_digest if who not in (-1, -2)]
    except (Exception, core.RunTimeout):
        events = []       # the dry run only chooses where to put the fault; the real run is judged by the monitors
    finally:
        signal.setitimer(signal.ITIMER_REAL, 0)
        signal.signal(signal.SIGALRM, old)
        core.end_run()
    if not events:
        return base
    t, pr = rng.choice(events)
    side = rng.choice((0.25, -0.25, 0.25, -0.25, 0))
    pr = max(1.25, pr + side)
    dev = rng.choice(procs)
    d1 = rng.choice((0, 0.25, 0.5, 1))
    d2 = rng.choice((0, 0.25, 0.5, 1, 2))
    pat = rng.choice(('fail', 'fail_restore', 'shut_restore', 'shut_fail_restore', 'fail_fail_restore', 'wo', 'shut_shut',
                      'restore_only', 'fail_restore_same_instant'))
    ops = []

    def op(k, dt, **kw):
        o = {'t': t + dt, 'pr': pr if dt == 0 else rng.choice((2, 5, 9, 11)), 'op': k, 'dev': dev}
        o.update(kw)
        ops.append(o)
    if pat == 'fail':
        op('fail', 0, d=0)
    elif pat == 'fail_restore':
        op('fail', 0, d=0); op('restore', d2)
    elif pat == 'shut_restore':
        op('shutdown', 0); op('restore', d2)
    elif pat == 'shut_fail_restore':
        op('shutdown', 0); op('fail', d1, d=0); op('restore', d1 + d2)
    elif pat == 'fail_fail_restore':
        op('fail', 0, d=0); op('fail', d1, d=0); op('restore', d1 + d2)
    elif pat == 'wo':
        op('wo', 0, tag=rng.choice(('a', 'b')))
        if rng.random() < 0.5:
            op('fail', d1, d=0); op('restore', d1 + d2 + 3)
    elif pat == 'shut_shut':
        op('shutdown', 0); op('shutdown', d1); op('restore', d1 + d2); op('restore', d1 + d2)
    elif pat == 'restore_only':
        op('restore', 0)
    elif pat == 'fail_restore_same_instant':
        op('fail', 0, d=0)
        ops.append({'t': t, 'pr': max(1.25, pr - 0.5), 'op': 'restore', 'dev': dev})
    ops.sort(key=lambda o: (o['t'], -o['pr']))
    base['ops'] = ops
    base['crashpoint'] = {'at': [t, pr], 'pattern': pat}
    base['tiebreak'] = core.gen_tiebreak(rng)
    return base


def monitors_for(own):
    from . import monitors as M
    return [cls() for cls in M.BY_PROP.get(own, [])]


# properties under which an exception escaping simulate() is itself a violation
EXC_CLAUSE = {'C03': 'C03.b', 'C06': 'C06.f'}


def run_case(case, own, probe=False):
    f = Floor(case, monitors_for(own), own)
    try:
        return f.run()
    except Violation:
        raise
    except core.StepCap as e:
        if own == 'C03':
            v = Violation('C03.b', str(e), step=f.step_no, time=getattr(f.env, 'now', None),
                          extra={'kind': 'stepcap'})
            v.stats = f.stats
            raise v
        raise Aborted(f'step cap: {e}', f.stats)
    except (HarnessError, core.RunTimeout):
        raise
    except Exception as e:
        if not core.raised_in_library(e):
            raise
        import traceback
        where = traceback.extract_tb(e.__traceback__)[-1]
        msg = f'{type(e).__name__}: {e} at {where.filename.split("/")[-1]}:{where.lineno} in {where.name}'
        if isinstance(e, RecursionError):
            msg = f'RecursionError in {where.name}'
        clause = EXC_CLAUSE.get(own)
        if own == 'C06' and not isinstance(e, AssertionError):
            clause = None
        if own == 'C13' and isinstance(e, AssertionError) and 'Invalid PartHandler state' in str(e):
            clause = 'C13.b'   # an event of a shut down machine was executed
        if own == 'C15' and case.get('trace'):
            clause = 'C15.e'   # an enabled trace must list the executed events, not crash
        if clause:
            v = Violation(clause, 'exception escaped simulate(): ' + msg, step=f.step_no,
                          time=getattr(f.env, 'now', None),
                          extra={'kind': 'exception', 'exc': type(e).__name__, 'where': where.name})
            v.stats = f.stats
            raise v
        # the model is well-posed and every call the harness makes is a documented one: a simulation that raises cannot
        # exhibit the property (on the unchanged library no generated run raises)
        v = Violation(own + '.x', 'exception escaped the simulation of a well-posed model: ' + msg, step=f.step_no,
                      time=getattr(f.env, 'now', None),
                      extra={'kind': 'exception', 'exc': type(e).__name__, 'where': where.name})
        v.stats = f.stats
        raise v


# ---------------------------------------------------------------------------
# Shrinking: ops first (chunks, singles), then structure, then numbers
# ---------------------------------------------------------------------------
def _without_device(case, name):
    """Remove one top-level (non-group-member) device, reconnecting its
    downstreams to its upstreams.  Returns None if not applicable."""
    devs = case['devices']
    d = next(x for x in devs if x['n'] == name)
    if d['k'] in ('group',) or 'in' in d:
        return None
    if d['k'] == 'source' and sum(1 for x in devs if x['k'] == 'source') <= 1:
        return None
    if d['k'] == 'sink' and sum(1 for x in devs if x['k'] == 'sink') <= 1:
        return None
    new = []
    for x in devs:
        if x['n'] == name:
            continue
        x = dict(x)
        if name in x.get('up', ()):
            ups = [u for u in x['up'] if u != name]
            if 'in' not in x:
                for u in d.get('up', ()):
                    if u not in ups:
                        ups.append(u)
            x['up'] = ups
        new.append(x)
    c = dict(case)
    c['devices'] = new
    c['ops'] = [o for o in case['ops'] if o.get('dev') != name
                and name not in o.get('up', ())]
    # drop groups that lost all their paths
    used = {x['group'] for x in new if x['k'] == 'path'}
    for g in [x for x in new if x['k'] == 'group' and x['n'] not in used]:
        gone = set(g['members']) | {g['n']}
        if any(x.get('k') == 'path' and x['group'] in gone for x in new):
            continue
        c['devices'] = [x for x in c['devices'] if x['n'] not in gone]
        c['ops'] = [o for o in c['ops'] if o.get('dev') not in gone]
    return c


def shrink(case):
    ops = case['ops']
    n = len(ops)
    size = n // 2
    while size >= 1:
        for i in range(0, n, size):
            c = dict(case)
            c['ops'] = ops[:i] + ops[i + size:]
            yield c
        size //= 2
    # structure
    for d in case['devices']:
        c = _without_device(case, d['n'])
        if c is not None:
            yield c
    for i, d in enumerate(case['devices']):
        for key, simple in (('res', None), ('ctcb', None), ('addv', None)):
            if d.get(key):
                c = dict(case)
                d2 = dict(d)
                d2.pop(key)
                c['devices'] = case['devices'][:i] + [d2] + case['devices'][i + 1:]
                yield c
        if d.get('up') and len(d['up']) > 1 and 'in' not in d:
            for u in d['up']:
                c = dict(case)
                d2 = dict(d)
                d2['up'] = [x for x in d['up'] if x != u]
                c['devices'] = case['devices'][:i] + [d2] + case['devices'][i + 1:]
                yield c
    if case.get('maintainer') and not any(o['op'] in ('wo', 'trywork') for o in ops):
        c = dict(case)
        c['maintainer'] = None
        yield c
    sch = case.get('schedulers') or []
    for i in range(len(sch)):
        c = dict(case)
        c['schedulers'] = sch[:i] + sch[i + 1:]
        yield c
    for i, x in enumerate(sch):
        if len(x['tt']) > 1:
            c = dict(case)
            c['schedulers'] = sch[:i] + [dict(x, tt=x['tt'][:-1])] + sch[i + 1:]
            yield c
    # horizon / plan
    if len(case['plan']) > 1:
        c = dict(case)
        c['plan'] = [sum(case['plan'])]
        yield c
    tot = sum(case['plan'])
    if len(case['plan']) == 1 and tot > 1:
        for h in (tot / 2, tot - 1):
            h = int(h * 4) / 4
            if h >= 0.5:
                c = dict(case)
                c['plan'] = [h]
                c['ops'] = [o for o in ops if o['t'] <= h]
                yield c
    # numbers
    for i, d in enumerate(case['devices']):
        if d.get('ct') not in (None, 0, 1) and d['k'] != 'source':
            for v in (0, 1):
                c = dict(case)
                d2 = dict(d)
                d2['ct'] = v
                c['devices'] = case['devices'][:i] + [d2] + case['devices'][i + 1:]
                yield c
        if d['k'] == 'source' and d.get('parts') not in (1, 2, 3):
            c = dict(case)
            d2 = dict(d)
            d2['parts'] = 3
            c['devices'] = case['devices'][:i] + [d2] + case['devices'][i + 1:]
            yield c
    if case['tiebreak'].get('mode') != 'const':
        c = dict(case)
        c['tiebreak'] = {'mode': 'const', 'seed': 0}
        yield c
    if case.get('id_offset'):
        c = dict(case)
        c['id_offset'] = 0
        yield c
