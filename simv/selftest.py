"""Self-tests of the harness itself.

determinism: every property, N cases: run each case twice in this process, then once more in a fresh
interpreter under a different PYTHONHASHSEED, then through the fork pool at two worker counts; the
SHA-256 of (status, run digest, all counters, violation) must be identical everywhere."""
import json
import os
import subprocess
import sys

from . import core, driver, props


def case_digests(prop, verif_seed, tier, indices):
    core.load_library()
    driver._PROP = prop
    out = []
    for i in indices:
        case = driver.make_case(prop, verif_seed, tier, i)
        r = core.run_guarded(prop.run, case, prop.timeout_s, prop.timeout_clause)
        out.append(core.digest([r['status'], r['digest'], r['stats'], r['violation']]))
    return out


def main(what, seed):
    what = what or 'determinism'
    if what.startswith('digests:'):
        _, pid, n = what.split(':')
        prop = props.get(pid)
        print(json.dumps(case_digests(prop, seed, 'quick', range(int(n)))))
        return 0
    if what.startswith('determinism'):
        parts = what.split(':')
        ids = parts[1].split(',') if len(parts) > 1 and parts[1] else props.IDS
        n = int(parts[2]) if len(parts) > 2 else 400
        bad = 0
        total = 0
        for pid in ids:
            prop = props.get(pid)
            a = case_digests(prop, seed, 'quick', range(n))
            b = case_digests(prop, seed, 'quick', range(n))
            outs = []
            for hs in ('1', '4242'):
                env = dict(os.environ, PYTHONHASHSEED=hs, VERIF_SEED=str(seed))
                p = subprocess.run([os.path.join(core.VERIF_DIR, 'check'), 'selftest', '--selftest', f'digests:{pid}:{n}'],
                                   capture_output=True, text=True, env=env, timeout=3600)
                try:
                    outs.append(json.loads(p.stdout.strip().splitlines()[-1]))
                except Exception:
                    outs.append(['subprocess failed: ' + (p.stdout + p.stderr)[-300:]])
            diffs = [i for i in range(n) if not (a[i] == b[i] == (outs[0][i] if i < len(outs[0]) else None)
                                                 == (outs[1][i] if i < len(outs[1]) else None))]
            total += n
            bad += len(diffs)
            print(f'{pid}: {n} cases x (2 in-process + 2 fresh interpreters with other PYTHONHASHSEED): '
                  f'{"identical" if not diffs else "DIFFER at indices " + str(diffs[:10])}')
        print(f'determinism: {total} cases, {bad} divergent')
        return 0 if bad == 0 else 3
    print('unknown selftest', what)
    return 2
