"""poolsim: ResourceManager / ReservedResources driven directly (C09, untimed
op histories vs a two-dict reference model) or through harness events on a
real Environment (C10, waiting requests vs an executable scan model)."""
import copy
import itertools

from . import core
from .core import Violation, HarnessError, Aborted

NAMES = ('a', 'b', 'c')
UNKNOWN = 'zz'


class PoolModel:
    def __init__(self):
        self.cap = {}
        self.use = {}
        self.hold = []     # list of dicts (index = handle index)

    def free(self, n):
        return self.cap.get(n, 0) - self.use.get(n, 0)

    def fits(self, req):
        return all(n in self.cap and self.free(n) >= a for n, a in req.items() if a != 0)

    def take(self, req):
        for n, a in req.items():
            if a > 0:
                self.use[n] = self.use.get(n, 0) + a

    def snapshot(self):
        return (dict(self.cap), dict(self.use), [dict(h) for h in self.hold])


# ---------------------------------------------------------------------------
# C09: untimed histories
# ---------------------------------------------------------------------------
class PoolRunner:
    def __init__(self, case):
        self.case = case
        self.lib = core.load_library()
        self.m = PoolModel()
        self.handles = []
        self.shared_args = {}
        self.stats = {'ops': {}, 'raised': 0, 'reserved_ok': 0, 'reserved_none': 0, 'reach': {}, 'n_ops': 0}
        self.i = 0

    def bump(self, d, k, n=1):
        d[k] = d.get(k, 0) + n

    def fail(self, clause, msg, kind):
        v = Violation(clause, msg, step=self.i, extra={'kind': kind})
        v.stats = self.stats
        raise v

    def observe(self):
        rm = self.rm
        cap = {n: rm.get_resource_capacity(n) for n in NAMES + (UNKNOWN,)}
        use = {n: rm.get_resource_usage(n) for n in NAMES + (UNKNOWN,)}
        hold = [h.reserved_resources for h in self.handles]
        return cap, use, hold

    def compare(self, what):
        cap, use, hold = self.observe()
        m = self.m
        for n in NAMES + (UNKNOWN,):
            if cap[n] < 0:
                self.fail('C09.d', f'after {what}: capacity of {n} is {cap[n]}', 'negative_capacity')
            if use[n] < 0:
                self.fail('C09.a', f'after {what}: usage of {n} is {use[n]}', 'negative_usage')
            if cap[n] != m.cap.get(n, 0):
                self.fail('C09.d', f'after {what}: capacity of {n} is {cap[n]}, model says {m.cap.get(n, 0)}', 'capacity')
            if use[n] != m.use.get(n, 0):
                self.fail('C09.b', f'after {what}: usage of {n} is {use[n]}, model says {m.use.get(n, 0)}', 'usage')
            tot = sum(h.get(n, 0) for h in hold)
            if use[n] != tot:
                self.fail('C09.a', f'after {what}: usage of {n} is {use[n]} but outstanding reservations hold {tot}',
                          'usage_vs_holdings')
        for i, (h, mh) in enumerate(zip(hold, m.hold)):
            if h != {k: v for k, v in mh.items() if v != 0}:
                self.fail('C09.e', f'after {what}: reservation #{i} holds {h}, model says {mh}', 'holdings')

    def expect_unchanged(self, before, what, exc):
        if self.observe() != before:
            self.fail('C09.c', f'{what} raised {type(exc).__name__} ({exc}) but changed state: '
                      f'{before} -> {self.observe()}', 'raised_and_changed')

    def run(self):
        lib = self.lib
        core.begin_run(None, None, {'mode': 'const', 'seed': 0})
        rm = self.rm = lib.ResourceManager()
        system = lib.System(resource_manager=rm)
        for n, a in self.case.get('init', {}).items():
            rm.add_resources(n, a)
            if a != 0:
                self.m.cap[n] = a
        system.simulate(0, print_summary=False)      # initialises the manager
        self.compare('initialisation')
        m = self.m
        for self.i, op in enumerate(self.case['ops'], 1):
            kind = op[0]
            self.bump(self.stats['ops'], kind)
            self.stats['n_ops'] += 1
            before = self.observe()
            what = f'op #{self.i} {op}'
            try:
                if kind == 'add':
                    _, n, a = op
                    # model
                    if a == 0:
                        exp = 'ok'
                    elif n in m.cap:
                        exp = 'raise' if (a < 0 and m.cap[n] + a < 0) else 'ok'
                    else:
                        exp = 'raise_or_noop' if a < 0 else 'ok'
                    try:
                        rm.add_resources(n, a)
                    except ValueError as e:
                        self.stats['raised'] += 1
                        if exp == 'ok':
                            self.fail('C09.d', f'{what} raised {e} although the change is legal', 'spurious_error')
                        self.expect_unchanged(before, what, e)
                    else:
                        if exp == 'raise':
                            self.fail('C09.d', f'{what} was accepted although it takes capacity below zero', 'no_error')
                        if exp == 'ok' and a != 0:
                            m.cap[n] = m.cap.get(n, 0) + a
                            m.use.setdefault(n, 0)
                        if exp == 'raise_or_noop':
                            self.bump(self.stats['reach'], 'negative_add_unknown')
                elif kind == 'reserve':
                    req = op[1]
                    how = op[2] if len(op) > 2 else None
                    arg = dict(req)
                    if how == 'reuse':
                        # the caller keeps one dict per kind of job and hands the very same object over every time
                        arg = self.shared_args.setdefault(tuple(sorted(req.items())), arg)
                        self.bump(self.stats['reach'], 'request_object_reused')
                    neg = any(a < 0 for a in req.values())
                    try:
                        h = rm.reserve_resources(arg)
                    except ValueError as e:
                        self.stats['raised'] += 1
                        if not neg:
                            self.fail('C09.b', f'{what} raised {e}', 'spurious_error')
                        self.expect_unchanged(before, what, e)
                        self.bump(self.stats['reach'], 'negative_request')
                    else:
                        if arg != req:
                            self.fail('C09.b', f'{what} modified the caller\'s request to {arg}', 'arg_mutated')
                        if neg:
                            if h is not None or self.observe() != before:
                                self.fail('C09.b', f'{what} contains a negative amount but was '
                                          f'{"granted" if h is not None else "partly applied"}', 'negative_granted')
                        elif m.fits(req):
                            if h is None:
                                self.fail('C09.b', f'{what} was refused although every amount fits '
                                          f'(free: { {n: m.free(n) for n in req} })', 'refused')
                            m.take(req)
                            self.handles.append(h)
                            m.hold.append({n: a for n, a in req.items() if a > 0})
                            self.stats['reserved_ok'] += 1
                            if len(req) > 1:
                                self.bump(self.stats['reach'], 'multi_granted')
                        else:
                            if h is not None:
                                self.fail('C09.b', f'{what} was granted although it does not fit '
                                          f'(free: { {n: m.free(n) for n in req} })', 'granted')
                            self.stats['reserved_none'] += 1
                            if len(req) > 1 and any(m.fits({n: a}) for n, a in req.items() if a > 0):
                                self.bump(self.stats['reach'], 'multi_partial_fit_refused')
                        if how == 'scribble':
                            # the caller goes on using its dict for something else: what was reserved must not follow
                            for n in list(arg):
                                arg[n] = 77
                            arg['zz'] = 1
                            self.bump(self.stats['reach'], 'request_object_overwritten')
                elif kind == 'release':
                    _, hi, res = op
                    if hi >= len(self.handles):
                        continue
                    h, mh = self.handles[hi], m.hold[hi]
                    if res is None:
                        h.release()
                        for n, a in mh.items():
                            m.use[n] -= a
                        if not mh:
                            self.bump(self.stats['reach'], 'repeated_release')
                        mh.clear()
                    else:
                        arg = dict(res)
                        invalid = any(a < 0 for a in res.values()) or \
                            any(a > 0 and mh.get(n, 0) < a for n, a in res.items())
                        zero_unheld = any(a == 0 and n not in mh for n, a in res.items())
                        try:
                            h.release(arg)
                        except (ValueError, KeyError) as e:
                            self.stats['raised'] += 1
                            if not invalid and not zero_unheld:
                                self.fail('C09.e', f'{what} raised {type(e).__name__}: {e} although reservation '
                                          f'holds {mh}', 'spurious_error')
                            self.expect_unchanged(before, what, e)
                            self.bump(self.stats['reach'], 'invalid_release')
                        else:
                            if invalid:
                                self.fail('C09.e', f'{what} was accepted although the reservation holds {mh}',
                                          'over_release')
                            for n, a in res.items():
                                if a > 0:
                                    mh[n] -= a
                                    m.use[n] -= a
                                    if mh[n] == 0:
                                        del mh[n]
                            self.bump(self.stats['reach'], 'partial_release')
                elif kind == 'merge':
                    _, i, j = op
                    if i >= len(self.handles) or j >= len(self.handles) or i == j:
                        continue
                    self.handles[i].merge(self.handles[j])
                    for n, a in m.hold[j].items():
                        m.hold[i][n] = m.hold[i].get(n, 0) + a
                    m.hold[j].clear()
                    self.bump(self.stats['reach'], 'merge')
                elif kind == 'tamper':
                    # the dictionary handed out by reserved_resources is the caller's to edit: the reservation must not change
                    _, hi = op
                    if hi >= len(self.handles):
                        continue
                    d = self.handles[hi].reserved_resources
                    d.clear()
                    d['zz'] = 5
                    self.bump(self.stats['reach'], 'tampered_with_returned_dict')
                elif kind == 'release_rel':
                    # release an amount computed from what is held: held + delta of one resource (delta > 0: over-release)
                    _, hi, ni, delta = op
                    if hi >= len(self.handles) or not m.hold[hi]:
                        continue
                    h, mh = self.handles[hi], m.hold[hi]
                    n = sorted(mh)[ni % len(mh)]
                    amt = mh[n] + delta
                    if not (amt > mh[n] or amt < mh[n]) and delta != 0:
                        continue      # delta is below the resolution of the held amount
                    try:
                        h.release({n: amt})
                    except (ValueError, KeyError) as e:
                        self.stats['raised'] += 1
                        if 0 <= amt <= mh[n]:
                            self.fail('C09.e', f'{what}: releasing {amt} of {n} raised {e} although {mh[n]} is held', 'spurious_error')
                        self.expect_unchanged(before, what, e)
                        self.bump(self.stats['reach'], 'near_over_release_rejected')
                    else:
                        if amt > mh[n] or amt < 0:
                            self.fail('C09.e', f'{what}: releasing {amt} of {n} was accepted although only {mh[n]} is held',
                                      'over_release')
                        if amt > 0:
                            mh[n] -= amt
                            m.use[n] -= amt
                            if mh[n] == 0:
                                del mh[n]
                elif kind == 'tick':
                    system.simulate(0.25, print_summary=False)
                else:
                    raise HarnessError(f'bad op {op}')
            except Violation:
                raise
            except HarnessError:
                raise
            except Exception as e:
                if not core.raised_in_library(e):
                    raise
                self.stats['raised'] += 1
                # only the documented errors may be raised, and then nothing may change
                if not isinstance(e, (ValueError, KeyError)):
                    self.fail('C09.c', f'{what} raised undocumented {type(e).__name__}: {e}', 'undocumented_error')
                if self.observe() != before:
                    self.fail('C09.c', f'{what} raised {type(e).__name__} ({e}) but changed state: {before} -> '
                              f'{self.observe()}', 'raised_and_changed')
                self.fail('C09.c', f'{what} raised {type(e).__name__}: {e} in a place the model does not expect',
                          'unexpected_error')
            self.compare(what)
        return self.stats, core.digest(self.case['ops'])


def run_c09(case):
    r = PoolRunner(case)
    return r.run()


AMTS = (0, 1, 1, 2, 3, -1, 1, 2, 2.0 ** -40)     # 2**-40: a positive amount, however small (sums stay exact)


def gen_req(rng, names=NAMES):
    k = rng.choice((1, 1, 2, 2, 3))
    pool = list(names) + ([UNKNOWN] if rng.random() < 0.15 else [])
    ns = rng.sample(pool, min(k, len(pool)))
    return {n: rng.choice(AMTS) for n in ns}


def _scale_case(case, k):
    def sc(v):
        return v * k
    case['init'] = {n: sc(a) for n, a in case['init'].items()}
    for op in case['ops']:
        if op[0] == 'add':
            op[2] = sc(op[2])
        elif op[0] == 'reserve':
            op[1] = {n: sc(a) for n, a in op[1].items()}
        elif op[0] == 'release' and op[2]:
            op[2] = {n: sc(a) for n, a in op[2].items()}
    return case


def gen_c09(rng):
    case = _gen_c09(rng)
    x = rng.random()
    if x < 0.05:
        # very large amounts: one unit is far below any relative tolerance
        _scale_case(case, 2 ** 32)
        case['scale'] = 'big'
    # (no tenths here: with amounts that are not exactly representable "usage == sum of holdings" differs by rounding
    #  in the unchanged library too; the property is about exact amounts)
    return case


def _gen_c09(rng):
    init = {n: rng.choice((0, 1, 2, 3, 5)) for n in rng.sample(NAMES, rng.randint(0, 3))}
    ops = []
    for _ in range(rng.choice((3, 6, 12, 25, 40))):
        x = rng.random()
        if x < 0.2:
            ops.append(['add', rng.choice(NAMES + (UNKNOWN,) if rng.random() < 0.2 else NAMES),
                        rng.choice((0, 1, 2, 3, -1, -1, -2, -5, 0.5, -0.5))])
        elif x < 0.55:
            ops.append(['reserve', gen_req(rng)] + rng.choice(([], [], [], ['reuse'], ['reuse'], ['scribble'])))
        elif x < 0.85:
            hi = rng.randrange(4)
            if rng.random() < 0.4:
                ops.append(['release', hi, None])
            else:
                res = {n: rng.choice((0, 1, 1, 2, -1, 7)) for n in rng.sample(NAMES + (UNKNOWN,), rng.randint(0 if rng.random() < 0.3 else 1, 3))}
                ops.append(['release', hi, res])
        elif x < 0.90:
            ops.append(['merge', rng.randrange(4), rng.randrange(4)])
        elif x < 0.93:
            ops.append(['tamper', rng.randrange(4)])
        elif x < 0.97:
            ops.append(['release_rel', rng.randrange(4), rng.randrange(3), rng.choice((1, 1, -1, 0, 2.0 ** -20, 0.5))])
        else:
            ops.append(['tick'])
    return {'engine': 'poolsim', 'init': init, 'ops': ops}


SYS_OPS = [
    ['add', 'a', 1], ['add', 'a', -1], ['add', 'b', 2], ['add', 'c', -1], ['add', 'a', -3],
    ['reserve', {'a': 1}], ['reserve', {'a': 1, 'b': 1}], ['reserve', {'a': 1, 'b': -1}], ['reserve', {'a': 2}],
    ['reserve', {'b': 0, 'c': 1}],
    ['release', 0, None], ['release', 0, {'a': 1}], ['release', 0, {'a': 1, 'zz': 0}], ['release', 1, None],
    ['release', 0, {'a': 2}], ['release', 0, {'b': -1}], ['merge', 0, 1], ['release', 0, {}],
]


def sys_count(max_len):
    return sum(len(SYS_OPS) ** k for k in range(1, max_len + 1))


def sys_case(n):
    base = len(SYS_OPS)
    length = 1
    while n >= base ** length:
        n -= base ** length
        length += 1
    ops = []
    for _ in range(length):
        ops.append(copy.deepcopy(SYS_OPS[n % base]))
        n //= base
    return {'engine': 'poolsim', 'init': {'a': 2, 'b': 1}, 'ops': ops, 'systematic': True}


def shrink_c09(case):
    ops = case['ops']
    n = len(ops)
    size = n // 2
    while size >= 1:
        for i in range(0, n, size):
            c = dict(case)
            c['ops'] = ops[:i] + ops[i + size:]
            yield c
        size //= 2
    for i, op in enumerate(ops):
        if op[0] in ('reserve',) and len(op[1]) > 1:
            for k in op[1]:
                c = dict(case)
                o2 = ['reserve', {a: b for a, b in op[1].items() if a != k}] + list(op[2:])
                c['ops'] = ops[:i] + [o2] + ops[i + 1:]
                yield c
        if op[0] == 'release' and op[2] and len(op[2]) > 1:
            for k in op[2]:
                c = dict(case)
                o2 = ['release', op[1], {a: b for a, b in op[2].items() if a != k}]
                c['ops'] = ops[:i] + [o2] + ops[i + 1:]
                yield c
    for k in list(case.get('init', {})):
        c = dict(case)
        c['init'] = {a: b for a, b in case['init'].items() if a != k}
        yield c


# ---------------------------------------------------------------------------
# C10: waiting requests on a real Environment
# ---------------------------------------------------------------------------
def fit3(cap, use, a):
    """Does amount a fit into a pool with the given capacity and usage?  True / False when the two natural ways of
    evaluating it in floating point agree (they always do for exactly representable amounts), None when they do not:
    then only the library's own reserve_resources() can say, and whatever it says must hold at every site."""
    f1 = cap - use >= a
    f2 = use + a <= cap
    return f1 if f1 == f2 else None


def fits3(cap, use, req):
    res = True
    for n, a in req.items():
        if a == 0:
            continue
        f = fit3(cap[n], use[n], a)
        if f is False:
            return False
        if f is None:
            res = None
    return res


def probe_reserve(rm, req):
    """In a forked child: would a direct reserve_resources(req) succeed right now?"""
    import os
    r, w = os.pipe()
    pid = os.fork()
    if pid == 0:
        try:
            os.close(r)
            try:
                ok = rm.reserve_resources(dict(req)) is not None
            except BaseException:
                ok = False
            os.write(w, b'1' if ok else b'0')
        finally:
            os._exit(0)
    os.close(w)
    data = os.read(r, 16)
    os.close(r)
    os.waitpid(pid, 0)
    if not data:
        raise HarnessError('reserve probe child died')
    return data == b'1'


class TimedAct:
    def __init__(self, runner, i, op):
        self.runner, self.i, self.op = runner, i, op
        self.__name__ = f'pool_op{i}'

    def __call__(self):
        self.runner.exec_op(self.i, self.op)


class TimedPoolRunner(core.Hooks):
    def __init__(self, case):
        self.case = case
        self.lib = core.load_library()
        self.m = PoolModel()
        self.waiting = []      # model: list of dict(id, req, cb)
        self.cb_log = []       # (req id, now)
        self.handles = []
        self.hold_model = []     # harness view of what each handle holds (parallel to self.handles)
        self.step_no = 0
        self.ids = itertools.count(1)
        self.called = {}
        self.stats = {'dispatches': 0, 'callbacks': 0, 'registered': 0, 'scans': 0, 'reach': {}, 'sim_time': 0.0,
                      'faults': {}}

    def bump(self, d, k, n=1):
        d[k] = d.get(k, 0) + n

    def fail(self, clause, msg, kind):
        v = Violation(clause, msg, step=self.step_no, time=self.env.now, extra={'kind': kind})
        v.stats = self.stats
        raise v

    # -- callbacks handed to the library -----------------------------------
    def make_cb(self, rid, req, kind, orig):
        def cb(manager, request):
            rm = self.rm
            self.stats['callbacks'] += 1
            self.cb_log.append(rid)
            if manager is not rm:
                self.fail('C10.d', f'callback of request #{rid} got {manager!r} instead of the manager', 'arg_manager')
            if request != req:
                self.fail('C10.d', f'callback of request #{rid} got request {request}, registered {req}', 'arg_request')
            if request is orig:
                self.fail('C10.d', f'callback of request #{rid} got the caller\'s own dict, not a copy', 'arg_identity')
            self.called[rid] = self.called.get(rid, 0) + 1
            if self.called[rid] > 1:
                self.fail('C10.a', f'callback of request #{rid} invoked {self.called[rid]} times', 'twice')
            for n, a in req.items():
                if a != 0 and fit3(rm.get_resource_capacity(n), rm.get_resource_usage(n), a) is False:
                    self.fail('C10.c', f'callback of request #{rid} {req} invoked although only '
                              f'{rm.get_resource_capacity(n) - rm.get_resource_usage(n)} of {n} is free', 'not_fit')
            if not self.in_scan:
                self.fail('C10.a', f'callback of request #{rid} invoked outside an availability check', 'outside_scan')
            # effects
            if kind == 'reserve':
                h = rm.reserve_resources(dict(req))
                if h is None:
                    self.fail('C10.c', f'inside its callback request #{rid} {req} could not be reserved', 'not_reservable')
                self.add_handle(h, req)
            elif kind == 'register':
                self.register({k: v for k, v in req.items()}, 'reserve')
            elif kind == 'release':
                # gives something back from inside the callback: requests skipped earlier in this pass may fit now
                self.release_first()
                self.bump(self.stats['reach'], 'release_inside_callback')
            elif kind == 'add':
                n = sorted(req)[0]
                rm.add_resources(n, 1)
                self.bump(self.stats['reach'], 'add_inside_callback')
        return cb

    def add_handle(self, h, req):
        self.handles.append(h)
        self.hold_model.append({n: a for n, a in req.items() if a > 0})

    def release_first(self, k=0):
        live = [i for i, hm in enumerate(self.hold_model) if hm]
        if not live:
            return
        i = live[k % len(live)]
        self.handles[i].release()
        self.hold_model[i] = {}

    def shared_cb(self, manager, request):
        """One callable object registered several times: each registration is a request of its own."""
        cands = [w for w in self.waiting if w['kind'] == 'shared' and w['req'] == request and not w.get('served')]
        exp = [x for x in (self.exp or []) if not isinstance(x, tuple)]
        pref = sorted((w for w in cands if w['id'] in exp), key=lambda w: exp.index(w['id']))
        w = (pref or cands or [None])[0]      # equal registrations are interchangeable: follow the model's choice
        if w is None:
            self.fail('C10.a', f'shared callback invoked with {request} but no such registration is waiting', 'shared_unknown')
        w['served'] = True
        w['cb'](manager, request)

    def register(self, req, kind, mutate=False):
        rid = next(self.ids)
        orig = dict(req)
        if kind == 'shared':
            inner = self.make_cb(rid, dict(req), 'reserve', orig)
            self.rm.reserve_resources_with_callback(orig, self.shared_cb)
            self.waiting.append({'id': rid, 'req': dict(req), 'kind': 'shared', 'cb': inner})
            self.stats['registered'] += 1
            self.bump(self.stats['reach'], 'same_callable_registered_again')
            return rid
        self.rm.reserve_resources_with_callback(orig, self.make_cb(rid, dict(req), kind, orig))
        if mutate:
            # the caller reuses its dict afterwards: the waiting request must be the copy taken at registration
            for n in list(orig):
                orig[n] = 99
            orig['zz'] = 1
            self.bump(self.stats['reach'], 'caller_dict_reused')
        self.waiting.append({'id': rid, 'req': dict(req), 'kind': kind})
        self.stats['registered'] += 1
        return rid

    # -- ops -------------------------------------------------------------------
    def exec_op(self, i, op):
        rm, m = self.rm, self.m
        k = op['op']
        self.bump(self.stats['faults'], k)
        if k == 'register':
            self.register(op['req'], op['cb'], op.get('mut', False))
        elif k == 'reserve':
            h = rm.reserve_resources(dict(op['req']))
            if h is not None:
                self.add_handle(h, op['req'])
        elif k == 'release':
            self.release_first(op['i'])
        elif k == 'add':
            try:
                rm.add_resources(op['res'], op['amt'])
            except ValueError:
                pass

    # -- model of one availability check ------------------------------------------
    def model_state(self):
        rm = self.rm
        names = set(NAMES)
        return ({n: rm.get_resource_capacity(n) for n in names}, {n: rm.get_resource_usage(n) for n in names})

    def expected_scan(self):
        """Registration-order scan re-evaluating feasibility after every callback."""
        cap, use = self.model_state()
        exp = []
        i = 0
        n_new = 0
        holds = [dict(h) for h in self.hold_model]
        waiting = list(self.waiting)
        self.scan_ambiguous = False
        while i < len(waiting):
            w = waiting[i]
            fits = fits3(cap, use, w['req'])
            if fits is None:
                # rounding decides (amounts that are not exactly representable): no prediction for this pass; the
                # callbacks that do run are still held to their own clauses (reservable, once, arguments, inside a check)
                self.scan_ambiguous = True
                self.bump(self.stats['reach'], 'scan_with_rounding_dependent_fit')
                return exp
            if fits:
                exp.append(w['id'])
                if w['kind'] in ('reserve', 'shared'):
                    for n, a in w['req'].items():
                        if a > 0:
                            use[n] += a
                    holds.append({n: a for n, a in w['req'].items() if a > 0})
                elif w['kind'] == 'release':
                    for hm in holds:
                        if hm:
                            for n, a in hm.items():
                                use[n] -= a
                            hm.clear()
                            break
                elif w['kind'] == 'add':
                    cap[sorted(w['req'])[0]] += 1
                elif w['kind'] == 'register':
                    waiting.append({'id': ('new', n_new), 'req': dict(w['req']), 'kind': 'reserve'})
                    n_new += 1
                waiting.pop(i)
            else:
                i += 1
        return exp

    # -- hooks -------------------------------------------------------------------------
    def is_check_event(self, e):
        a = e.action
        return e.asset_id == -1 and getattr(a, '__self__', None) is self.rm

    def before_step(self, env):
        self.step_no += 1
        q = env._events
        nxt = min(x.time for x in q)
        if nxt > env.now:
            self.quiescent()
        self.in_scan = False
        self.exp = None
        self.log_len = len(self.cb_log)

    def on_execute(self, e):
        if self.is_check_event(e) and not e.cancelled:
            self.in_scan = True
            self.stats['scans'] += 1
            self.exp = self.expected_scan()
            self.n_wait_before = len(self.waiting)

    def after_step(self, env, e):
        self.stats['dispatches'] += 1
        got = self.cb_log[self.log_len:]
        if self.in_scan:
            exp = self.exp
            # requests registered from inside callbacks have fresh ids: map None -> actual new ids in order
            new_ids = [w['id'] for w in self.waiting[self.n_wait_before:]]
            exp = [x if not isinstance(x, tuple) else (new_ids[x[1]] if x[1] < len(new_ids) else '?') for x in exp]
            # registrations of one and the same callable with equal requests cannot be told apart by the callee:
            # compare them as interchangeable, and let the model decide which of them was served
            by_id = {w['id']: w for w in self.waiting}

            def canon(x):
                w = by_id.get(x)
                if w is not None and w['kind'] == 'shared':
                    return ('shared', tuple(sorted(w['req'].items())))
                return x
            if [canon(x) for x in got] == [canon(x) for x in exp]:
                got = list(exp)
            if got != exp and not self.scan_ambiguous:
                missing = [x for x in exp if x not in got]
                extra = [x for x in got if x not in exp]
                if extra:
                    self.fail('C10.c', f'availability check at {env.now} called back {got}, the model expects {exp}',
                              'extra_callback')
                if missing:
                    self.fail('C10.a', f'availability check at {env.now} called back {got}, the model expects {exp} '
                              f'(request(s) {missing} fit but were not served)', 'missed_callback')
                self.fail('C10.b', f'availability check at {env.now} called back {got}, registration order is {exp}',
                          'order')
            if len(got) > 1:
                self.bump(self.stats['reach'], 'multi_callback_scan')
            served = set(got)
            self.waiting = [w for w in self.waiting if w['id'] not in served]
            for w in self.waiting:
                w.pop('served', None)
        elif got:
            self.fail('C10.a', f'callbacks {got} ran outside an availability check', 'outside_scan')
        self.in_scan = False
        wr = getattr(self.rm, '_waiting_requests', None)
        lw = len(wr) if wr is not None else len(self.waiting)
        if lw != len(self.waiting):
            self.fail('C10.a', f'manager keeps {lw} waiting requests, model has {len(self.waiting)}', 'waiting_len')
        if self.step_no > 20000:
            raise core.StepCap('poolsim step cap')

    def quiescent(self):
        cap, use = self.model_state()
        for w in self.waiting:
            fits = fits3(cap, use, w['req'])
            if fits is None:
                # rounding decides: the manager's own direct reserve is the arbiter of "fits"
                self.bump(self.stats['reach'], 'rounding_dependent_fit_probed')
                if probe_reserve(self.rm, w['req']):
                    self.fail('C10.e', f'time advances from {self.env.now} while request #{w["id"]} {w["req"]} is still '
                              f'waiting although reserve_resources() of the same request succeeds at this moment (free: '
                              f'{ {n: cap[n] - use[n] for n in w["req"]} }; whether it fits depends on rounding, the two '
                              f'sites disagree)', 'feasible_waiting_rounding')
                fits = False
            if fits:
                self.fail('C10.e', f'time advances from {self.env.now} while request #{w["id"]} {w["req"]} is '
                          f'still waiting although it fits (free: { {n: cap[n] - use[n] for n in w["req"]} })',
                          'feasible_waiting')
        self.bump(self.stats['reach'], 'quiescent_checks')
        if self.waiting:
            self.bump(self.stats['reach'], 'quiescent_with_waiters')

    def run(self):
        lib, case = self.lib, self.case
        core.begin_run(self, None, case['tiebreak'])
        rm = self.rm = lib.ResourceManager()
        for n, a in case.get('init', {}).items():
            rm.add_resources(n, a)
        system = lib.System(resource_manager=rm)
        self.env = system.env
        core.CURRENT.env = self.env
        self.in_scan = False
        for i, op in enumerate(case['ops']):
            self.env.schedule_event(op['t'], -2, TimedAct(self, i, op), op['pr'], f'pool op {i}')
        for dur in case['plan']:
            system.simulate(dur, print_summary=False)
            self.stats['sim_time'] += dur
            self.quiescent()
        if core.CURRENT.dispatches != core.CURRENT.executes or core.CURRENT.dispatches == 0:
            raise HarnessError('dispatch instrumentation starved or inconsistent')
        return self.stats, core.digest([self.cb_log, self.stats['dispatches']])


def run_c10(case):
    r = TimedPoolRunner(case)
    try:
        return r.run()
    except (Violation, HarnessError, core.RunTimeout):
        raise
    except core.StepCap as e:
        raise Aborted(str(e), r.stats)
    except Exception as e:
        if not core.raised_in_library(e):
            raise
        v = Violation('C10.x', f'exception escaped the simulation: {type(e).__name__}: {e}', step=r.step_no,
                      time=getattr(getattr(r, 'env', None), 'now', None), extra={'kind': 'exception', 'exc': type(e).__name__})
        v.stats = r.stats
        raise v


def gen_c10(rng):
    init = {n: rng.choice((0, 0, 1, 2, 3)) for n in rng.sample(NAMES, rng.randint(1, 3))}
    horizon = rng.choice((3, 6, 10))
    tgrid = [x * 0.25 for x in range(0, int(horizon * 4))]
    if rng.random() < 0.5:
        tgrid = rng.sample(tgrid, 3)      # pile ops up on few instants
    ops = []
    for _ in range(rng.choice((3, 6, 12, 25, 40))):
        x = rng.random()
        t = rng.choice(tgrid)
        pr = rng.choice((2, 4, 5, 7, 9, 10, 11, 11.5, 10.5, 3.5))
        if x < 0.35:
            req = {n: rng.choice((0, 1, 1, 2, 3)) for n in rng.sample(NAMES, rng.choice((1, 1, 2, 3)))}
            ops.append({'t': t, 'pr': pr, 'op': 'register', 'req': req,
                        'cb': rng.choice(('reserve', 'reserve', 'reserve', 'none', 'register', 'release', 'add', 'shared', 'shared')),
                        'mut': rng.random() < 0.15})
        elif x < 0.55:
            req = {n: rng.choice((1, 1, 2)) for n in rng.sample(NAMES, rng.choice((1, 1, 2)))}
            ops.append({'t': t, 'pr': pr, 'op': 'reserve', 'req': req})
        elif x < 0.8:
            ops.append({'t': t, 'pr': pr, 'op': 'release', 'i': rng.randrange(8)})
        else:
            ops.append({'t': t, 'pr': pr, 'op': 'add', 'res': rng.choice(NAMES),
                        'amt': rng.choice((1, 1, 2, 3, -1, -2, 0))})
    ops.sort(key=lambda o: (o['t'], -o['pr']))
    if rng.random() < 0.12:
        # decimal amounts (tenths as a user would write them): not exactly representable, sums round
        scale = rng.choice((1, 1, 3, 4, 5))       # 0.1 0.2 0.3 ... or 0.3 0.6 0.9 ..., 0.5 1.0 1.5 (exact again)
        init = {n: a * scale / 10 for n, a in init.items()}
        if rng.random() < 0.5:
            init[rng.choice(NAMES)] = rng.choice((1.0, 1.7, 1.2, 2.0, 0.7))
        for o in ops:
            if 'req' in o:
                o['req'] = {n: a * scale / 10 for n, a in o['req'].items()}
            if o['op'] == 'add':
                o['amt'] = o['amt'] * scale / 10
    plan = [horizon] if rng.random() < 0.7 else [horizon / 2, horizon / 2]
    return {'engine': 'poolsim_timed', 'init': init, 'ops': ops, 'plan': plan, 'tiebreak': core.gen_tiebreak(rng)}


def shrink_c10(case):
    ops = case['ops']
    n = len(ops)
    size = n // 2
    while size >= 1:
        for i in range(0, n, size):
            c = dict(case)
            c['ops'] = ops[:i] + ops[i + size:]
            yield c
        size //= 2
    for i, op in enumerate(ops):
        if op['op'] == 'register' and op['cb'] != 'reserve':
            c = dict(case)
            c['ops'] = ops[:i] + [dict(op, cb='reserve')] + ops[i + 1:]
            yield c
        if op.get('req') and len(op['req']) > 1:
            for k in op['req']:
                c = dict(case)
                c['ops'] = ops[:i] + [dict(op, req={a: b for a, b in op['req'].items() if a != k})] + ops[i + 1:]
                yield c
    if len(case['plan']) > 1:
        c = dict(case)
        c['plan'] = [sum(case['plan'])]
        yield c
    if case['tiebreak'].get('mode') != 'const':
        c = dict(case)
        c['tiebreak'] = {'mode': 'const', 'seed': 0}
        yield c
