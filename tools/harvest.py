#!/venv/bin/python
"""tools/harvest.py <Cxx> <k> [extra check ids...]: verify a seeded change written by a sub-agent in /tmp/wt_<Cxx>/seeded/<k>
(applies on a clean export of /repo HEAD, demo PASS->FAIL, 150 tests pass with it), run the property's quick check against
the patched copy, and store everything under /verif/seeded/<Cxx>-<k>/."""
import json, os, shutil, subprocess, sys, tempfile
pid, k = sys.argv[1], sys.argv[2]
extra = [a for a in sys.argv[3:] if not a.startswith('--')]
wave = next((a.split('=')[1] for a in sys.argv[3:] if a.startswith('--wave=')), '')
tag = f'{pid}-{wave}-{k}' if wave else f'{pid}-{k}'
src = f'/tmp/{wave or "wt"}_{pid}/seeded/{k}'
if not os.path.isdir(src) or '--stored' in sys.argv:
    src = f'/verif/seeded/{tag}'
dst = f'/verif/seeded/{tag}'
work = tempfile.mkdtemp(prefix='simv_harvest.')
def sh(cmd, **kw):
    return subprocess.run(cmd, shell=True, capture_output=True, text=True, **kw)
try:
    sh(f'git -C /repo archive HEAD | tar -x -C {work}')
    env = dict(os.environ, PYTHONPATH=work, PYTHONDONTWRITEBYTECODE='1')
    demo = os.path.join(src, 'demo.py')
    r0 = sh(f'cd {work} && timeout 120 /venv/bin/python {demo}', env=env)
    ap = sh(f'cd {work} && git init -q . 2>/dev/null; git -C {work} apply --whitespace=nowarn {src}/patch.diff')
    if ap.returncode != 0:
        ap = sh(f'cd {work} && patch -p1 -s < {src}/patch.diff')
    files = sh(f"grep '^+++ ' {src}/patch.diff").stdout.split()
    r1 = sh(f'cd {work} && timeout 120 /venv/bin/python {demo}', env=env)
    t = sh(f'cd {work} && timeout 600 /venv/bin/python -m pytest -q -p no:cacheprovider simprocesd/tests/model 2>&1 | tail -1', env=env)
    res = {'property': pid, 'patch_applies': ap.returncode == 0, 'patched_files': [f for f in files if f.startswith('b/')],
           'demo_clean': (r0.returncode, r0.stdout.strip()[-60:]), 'demo_patched': (r1.returncode, r1.stdout.strip()[-200:]),
           'tests_with_patch': t.stdout.strip()}
    ok = ap.returncode == 0 and r0.returncode == 0 and r1.returncode != 0 and ' passed' in t.stdout and 'failed' not in t.stdout
    res['confirmed'] = ok
    det = {}
    if '--stored' in sys.argv and os.path.exists(os.path.join(dst, 'meta.json')):
        # keep the record of other properties' checks that also catch it
        old = json.load(open(os.path.join(dst, 'meta.json')))
        extra = [c for c in old.get('detected_by', {}) if c != pid and old['detected_by'][c]] + extra
    for c in [pid] + extra:
        e = dict(os.environ, SIMV_REPO=work, SIMV_REPLAY_DIR=os.path.join(work, 'replays'))
        r = sh(f'/verif/check {c} --no-evidence', env=e)
        lines = [l for l in r.stdout.splitlines() if l.startswith('  C') or 'tier=' in l]
        det[c] = {'exit': r.returncode, 'first': lines[0][:400] if lines else '', 'summary': lines[-1] if lines else r.stderr[-300:]}
    res['checks'] = det
    print(json.dumps(res, indent=1))
    if ok and src != dst:
        os.makedirs(dst, exist_ok=True)
        for fn in ('patch.diff', 'demo.py', 'notes.txt'):
            if os.path.exists(os.path.join(src, fn)):
                shutil.copy(os.path.join(src, fn), dst)
    if ok:
        meta = {'breaks_property': pid, 'needs': open(os.path.join(dst, 'notes.txt')).read()[:1500] if os.path.exists(os.path.join(dst, 'notes.txt')) else '',
                'verified': {'patch_applies_on_repo_HEAD': True, 'demo_on_clean_tree': 'PASS (exit 0)', 'demo_with_patch': f'exit {r1.returncode}',
                             'test_suite_with_patch': t.stdout.strip(),
                             'commands': ['git archive HEAD | tar -x -C <scratch>; PYTHONPATH=<scratch> python demo.py', 'git apply patch.diff', 'python -m pytest simprocesd/tests/model', 'SIMV_REPO=<scratch> /verif/check <id>']},
                'detected_by': {c: (d['exit'] == 1) for c, d in det.items()}, 'first_violation': {c: d['first'] for c, d in det.items()}}
        json.dump(meta, open(os.path.join(dst, 'meta.json'), 'w'), indent=1)
finally:
    shutil.rmtree(work, ignore_errors=True)
