import importlib

IDS = [f'C{i:02d}' for i in range(1, 21)]


def get(prop_id):
    mod = importlib.import_module(f'simv.props.{prop_id.lower()}')
    return mod.PROP
