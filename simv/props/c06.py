from ._floorprop import FloorProp


class C06(FloorProp):
    id = 'C06'
    profile = 'c06'
    crash_every = 3
    design_ref = 'DESIGN.md section 4 / C06'
    budgets = {'quick': 40000, 'thorough': 800000}


PROP = C06()
