"""lifesim: reproducibility twins (C14) and lifecycle programs (C20)."""
import copy
import hashlib
import functools
import pickle
import random as real_random
import re

from . import core, spec as specmod
from .core import Violation, HarnessError, Aborted
from .floor import Floor

INF = float('inf')


# ===========================================================================
# Fingerprints (id-normalised view of a finished system)
# ===========================================================================
def name_map(system, base):
    """default names embed the asset id (<Class>_<id>): map them to <Class>_#<creation rank>"""
    m = {}
    for a in system._assets:
        if a.name == f'{type(a).__name__}_{a.id}':
            m[a.name] = f'{type(a).__name__}_#{a.id - base}'
    return m


ID_FIELDS = {'received_part': (1,), 'produced_part': (1,), 'supplied_new_part': (1,), 'device_failure': (1,)}


def fingerprint(system, base):
    env = system.env
    nm = name_map(system, base)

    def norm_name(x, base):
        return nm.get(x, x) if isinstance(x, str) else x
    sd = {}
    for label, table in env.simulation_data.items():
        t2 = {}
        for sub, recs in table.items():
            out = []
            for r in recs:
                r = list(r) if isinstance(r, tuple) else [r]
                for i in ID_FIELDS.get(label, ()):
                    if i < len(r) and isinstance(r[i], int):
                        r[i] = r[i] - base
                r = [norm_name(x, base) for x in r]
                out.append(r)
            t2[norm_name(sub, base)] = out
        sd[label] = t2
    assets = []
    for a in system._assets:
        d = {'name': norm_name(a.name, base), 'id': a.id - base, 'cls': type(a).__name__, 'value': a.value}
        for attr in ('produced_parts', 'received_parts_count', 'uptime', 'utilization_time', 'cost_of_produced_parts',
                     'value_of_received_parts', 'available_capacity', 'current_state'):
            if hasattr(a, attr):
                try:
                    v = getattr(a, attr)
                    d[attr] = v() if callable(v) else v
                except Exception as e:   # e.g. uptime before initialisation
                    d[attr] = f'!{type(e).__name__}'
        if hasattr(a, 'level') and callable(getattr(a, 'level')):
            d['level'] = a.level()
        assets.append(d)
    queue = [(e.time, e.asset_id - base if e.asset_id > 0 else e.asset_id, float(e.event_type),
              getattr(e.action, '__name__', None) or getattr(getattr(e.action, 'func', None), '__name__', '?'))
             for e in env._events]
    return {'now': env.now, 'data': sd, 'assets': assets, 'queue': queue}


def first_diff(a, b, path=''):
    num = (int, float)
    if type(a) != type(b) and not (isinstance(a, num) and isinstance(b, num)
                                   and not isinstance(a, bool) and not isinstance(b, bool)):
        return f'{path}: {a!r} vs {b!r}'
    if isinstance(a, dict):
        for k in sorted(set(a) | set(b), key=str):
            if k not in a or k not in b:
                return f'{path}/{k}: present only in one run'
            d = first_diff(a[k], b[k], f'{path}/{k}')
            if d:
                return d
        return None
    if isinstance(a, (list, tuple)):
        for i, (x, y) in enumerate(zip(a, b)):
            d = first_diff(x, y, f'{path}[{i}]')
            if d:
                return d
        if len(a) != len(b):
            return f'{path}: lengths {len(a)} vs {len(b)}'
        return None
    if a != b and not (a != a and b != b):
        return f'{path}: {a!r} vs {b!r}'
    return None


# ===========================================================================
# C14.a / C14.b on floorsim models
# ===========================================================================
def content_weight_fn(offset):
    counts = {}

    def fn(ev):
        a = ev.action
        name = getattr(a, '__name__', None) or getattr(getattr(a, 'func', None), '__name__', '?')
        aid = ev.asset_id - offset if ev.asset_id > 0 else ev.asset_id
        key = (ev.time, aid, float(ev.event_type), name)
        k = counts.get(key, 0)
        counts[key] = k + 1
        h = hashlib.sha256(repr((key, k)).encode()).digest()
        return int.from_bytes(h[:7], 'big') / 2.0 ** 56
    return fn


class TwinFloor(Floor):
    """Floor run that can hold tie-breaks fixed by event content and seeds the
    global random generator (user callbacks draw from it)."""

    def __init__(self, spec, seed, content=False, real_random_weights=False):
        super().__init__(spec, [], 'C14')
        self.seed = seed
        self.content = content
        self.real_random_weights = real_random_weights

    def build(self):
        if self.content:
            core.CURRENT.content_weights = content_weight_fn(self.spec.get('id_offset', 0))
        if self.real_random_weights:
            # faithful to the shipped behaviour: weights come from the seeded global generator
            self.lib.simulation.random = real_random
        real_random.seed(self.seed)
        super().build()


def run_twin(spec, seed, content=False, real_weights=False):
    f = TwinFloor(spec, seed, content, real_weights)
    lib = f.lib
    try:
        f.run()
        return fingerprint(f.system, spec.get('id_offset', 0)), f.stats
    finally:
        lib.simulation.random = core.TIEBREAK
        core.end_run()


def run_c14_ab(case):
    spec = case['spec']
    stats = {'dispatches': 0, 'twin_pairs': 0, 'reach': {}, 'sim_time': 0.0}
    mode = case['mode']
    rw = case.get('weights', 'real') == 'real'
    try:
        if mode == 'offset':
            s1 = dict(spec, id_offset=case['offsets'][0])
            s2 = dict(spec, id_offset=case['offsets'][1])
            fp1, st1 = run_twin(s1, case['seed'], real_weights=rw)
            fp2, st2 = run_twin(s2, case['seed'], real_weights=rw)
            what = f'id offsets {case["offsets"][0]} and {case["offsets"][1]}'
            clause = 'C14.a'
        elif mode == 'repeat':
            fp1, st1 = run_twin(spec, case['seed'], real_weights=rw)
            fp2, st2 = run_twin(spec, case['seed'], real_weights=rw)
            what = 'two runs with the same seed'
            clause = 'C14.a'
        else:
            total = sum(spec['plan'])
            whole = dict(spec, plan=[total])
            cuts = case['cuts']
            plan, prev = [], 0
            for c in cuts + [total]:
                plan.append(c - prev)
                prev = c
            split = dict(spec, plan=plan)
            fp1, st1 = run_twin(whole, case['seed'], content=True)
            fp2, st2 = run_twin(split, case['seed'], content=True)
            what = f'simulate({total}) and simulate{tuple(plan)}'
            clause = 'C14.b'
            if case.get('all_cuts'):
                # thorough tier: every single split point of the quarter grid, not only the sampled ones
                for k in range(1, int(total * 4)):
                    c = k * 0.25
                    fpk, stk = run_twin(dict(spec, plan=[c, total - c]), case['seed'], content=True)
                    stats['reach']['grid_split_points'] = stats['reach'].get('grid_split_points', 0) + 1
                    d = first_diff(fp1, fpk)
                    if d:
                        v = Violation(clause, f'simulate({total}) and simulate({c}, {total - c}) differ: {d}',
                                      extra={'kind': mode})
                        v.stats = stats
                        raise v
    except (HarnessError, core.RunTimeout, Violation):
        raise
    except core.StepCap as e:
        raise Aborted(str(e), stats)
    except Exception as e:
        if not core.raised_in_library(e):
            raise
        v = Violation('C14.x', f'exception escaped one of the twin runs: {type(e).__name__}: {e}',
                      extra={'kind': 'exception', 'exc': type(e).__name__})
        v.stats = stats
        raise v
    stats['dispatches'] = st1['dispatches'] + st2['dispatches']
    stats['sim_time'] = st1['sim_time'] + st2['sim_time']
    stats['twin_pairs'] = 1
    stats['parts_generated'] = st1.get('parts_generated', 0)
    stats['tie_groups'] = 0
    d = first_diff(fp1, fp2)
    if d:
        v = Violation(clause, f'{what} differ: {d}', extra={'kind': mode})
        v.stats = stats
        raise v
    stats['reach'][mode] = 1
    return stats, core.digest([fp1['now'], fp1['data'].get('received_part', {})])


def gen_c14_ab(rng, all_cuts=False):
    spec = specmod.gen_spec(rng, 'c14')
    mode = rng.choice(('offset', 'offset', 'repeat', 'split', 'split', 'split'))
    spec['default_rm'] = rng.random() < 0.5
    case = {'engine': 'lifesim_twin', 'mode': mode, 'spec': spec, 'seed': rng.randrange(2 ** 31)}
    if mode in ('offset', 'repeat'):
        # real seeded weights (shipped behaviour) or the adversary (many exact ties -> asset-id tie-break decides)
        case['weights'] = rng.choice(('real', 'adversary'))
        if case['weights'] == 'adversary':
            spec['tiebreak'] = {'mode': rng.choice(('const', 'coarse', 'coarse')), 'seed': rng.randrange(2 ** 32)}
    if mode == 'offset':
        case['offsets'] = [rng.choice((0, 3, 100)), rng.choice((7, 1000, 54321))]
    if mode == 'split':
        total = sum(spec['plan'])
        spec['plan'] = [total]
        grid = [x * 0.25 for x in range(0, int(total * 4) + 1)]
        case['cuts'] = sorted(rng.sample(grid, rng.choice((1, 1, 2, 3))))
        if all_cuts:
            case['all_cuts'] = True
    return case


# ===========================================================================
# C14.c simulate_multiple_times with a simulated pool
# ===========================================================================
def process_part(processor, part):
    part.quality = real_random.random()


MultiProc = None


def _multi_proc_class():
    """PartProcessor subclass with work orders that take time; a module attribute, so instances pickle by reference."""
    global MultiProc
    if MultiProc is None:
        lib = core.load_library()

        class _MP(lib.PartProcessor):
            wo = {}

            def get_work_order_duration(self, tag):
                return self.wo.get(tag, (0, 1, 0))[0]

            def get_work_order_capacity(self, tag):
                return self.wo.get(tag, (0, 1, 0))[1]

            def get_work_order_cost(self, tag):
                return self.wo.get(tag, (0, 1, 0))[2]
        _MP.__name__ = _MP.__qualname__ = 'MultiProc'
        _MP.__module__ = __name__
        MultiProc = _MP
    return MultiProc


def multi_toggle(scheduler, obj, time, state):
    """ActionScheduler action (module level: the scheduler and its pending event travel through pickle)."""
    if state == 'off':
        obj.shutdown()
    else:
        obj.restore_functionality()


def multi_sim(system, index, mspec, horizon):
    """Module-level (picklable) simulation function in the style of examples/SimulateMultipleTimes.py."""
    from simprocesd.model.factory_floor import Source, Sink, Buffer, Maintainer, ActionScheduler
    from simprocesd.model.sensors import PeriodicSensor, AttributeProbe
    PartProcessor = _multi_proc_class()
    real_random.seed(mspec['seed'] + index)
    srcs = [Source(name=f'src{index}_{i}', cycle_time=s['ct'],
                   starting_parts=INF if s['parts'] is None else s['parts'])
            for i, s in enumerate(mspec['sources'])]
    prev = srcs
    procs = []
    for r, amt in mspec.get('resources', {}).items():
        system.resource_manager.add_resources(r, amt)
    for j, st in enumerate(mspec['stages']):
        if st['k'] == 'proc':
            d = PartProcessor(name=None if st.get('default_name') else f'M{j}', upstream=prev, cycle_time=st['ct'],
                              resources_for_processing=st.get('res'))
            if st.get('rq'):
                d.add_finish_processing_callback(process_part)
            procs.append(d)
        else:
            d = Buffer(name=f'B{j}', upstream=prev, capacity=st['cap'])
        prev = [d]
    Sink(name='sink', upstream=prev, cycle_time=mspec.get('sink_ct', 0))
    ex = mspec.get('extras')
    if ex and procs:
        # maintenance, failures, a shift schedule and a sensor: whatever is still pending or in progress when the
        # run ends (work order under way, paused events, next sample, next shift change) is part of the result
        m = Maintainer(capacity=ex['cap'])
        for k, (t, tag, wo) in enumerate(ex['orders']):
            p = procs[k % len(procs)]
            p.wo = dict(p.wo, **{tag: tuple(wo)})
            system.env.schedule_event(t, -1, functools.partial(m.create_work_order, p, tag), 4.5, 'order')
        for k, t in enumerate(ex['fails']):
            # (a device can only be told about its failure once the run has initialised it)
            system.env.schedule_event(0, -1, functools.partial(procs[k % len(procs)].schedule_failure, t, 'multi'), 4.5, 'plan')
        if ex.get('shift'):
            sch = ActionScheduler([tuple(x) for x in ex['shift']], name='shift')
            sch.register_object(procs[-1], multi_toggle)
        if ex.get('sense'):
            PeriodicSensor(ex['sense'], [AttributeProbe('uptime', procs[0])], name='sensor')
    system.simulate(horizon, print_summary=False)
    for _ in range(mspec.get('fail_draws', 0)):
        pass


class PoolBoundaryError(Exception):
    """a task or a result could not be pickled / unpickled: with real worker processes the call fails the same way"""


class SimFuture:
    def __init__(self, pool, i):
        self.pool, self.i = pool, i

    def result(self, timeout=None):
        self.pool.run_all()
        r = self.pool.results[self.i]
        if isinstance(r, PoolBoundaryError):
            raise r
        try:
            return pickle.loads(r)
        except Exception as e:
            raise PoolBoundaryError(f'result of task #{self.i} cannot be unpickled: {type(e).__name__}: {e}')


class SimPool:
    """Stands in for concurrent.futures.ProcessPoolExecutor: virtual workers
    with private copies of the process globals, seeded task placement, pickle
    boundary for arguments and results."""
    rng = None
    log = None

    def __init__(self, max_workers=None, *a, **k):
        self.w = max_workers or 5
        self.tasks = []
        self.results = {}
        self.done = False

    def __enter__(self):
        return self

    def __exit__(self, *exc):
        self.run_all()
        return False

    def submit(self, fn, *args, **kwargs):
        try:
            self.tasks.append(pickle.dumps((fn, args, kwargs)))
        except Exception as e:
            raise PoolBoundaryError(f'task #{len(self.tasks)} cannot be pickled: {type(e).__name__}: {e}')
        return SimFuture(self, len(self.tasks) - 1)

    def shutdown(self, wait=True, **k):
        self.run_all()

    def run_all(self):
        if self.done:
            return
        self.done = True
        lib = core.load_library()
        rng = SimPool.rng
        parent = (lib.Asset._id_counter, lib.System._instance, real_random.getstate())
        workers = [[parent[0], parent[1], parent[2]] for _ in range(self.w)]
        order = list(range(len(self.tasks)))
        # tasks are handed out in submission order, each to a seeded choice of worker; a worker that is
        # chosen again continues with the globals its previous task left behind
        placement = []
        for ti in order:
            wi = rng.randrange(self.w)
            placement.append(wi)
            wk = workers[wi]
            lib.Asset._id_counter, lib.System._instance = wk[0], wk[1]
            real_random.setstate(wk[2])
            fn, args, kwargs = pickle.loads(self.tasks[ti])
            res = fn(*args, **kwargs)
            try:
                self.results[ti] = pickle.dumps(res)
            except Exception as e:
                self.results[ti] = PoolBoundaryError(f'result of task #{ti} cannot be pickled: {type(e).__name__}: {e}')
            wk[0], wk[1], wk[2] = lib.Asset._id_counter, lib.System._instance, real_random.getstate()
        lib.Asset._id_counter, lib.System._instance = parent[0], parent[1]
        real_random.setstate(parent[2])
        if SimPool.log is not None:
            SimPool.log.append(placement)


class _FakeFutures:
    ProcessPoolExecutor = SimPool


class _FakeConcurrent:
    futures = _FakeFutures


def sys_fp(system):
    base = min(a.id for a in system._assets) - 1
    return fingerprint(system, base)


def run_c14_c(case):
    lib = core.load_library()
    stats = {'dispatches': 0, 'multi_runs': 0, 'pool_placements': 0, 'reach': {}, 'sim_time': 0.0, 'real_pool_runs': 0}
    mspec, horizon, n = case['mspec'], case['horizon'], case['n']
    core.begin_run(None, None, {'mode': 'uniform', 'seed': 0}, case.get('id_offset', 0))
    real_conc = lib.system.concurrent
    lib.simulation.random = real_random
    try:
        # the extra arguments of the simulation function travel positionally or by keyword
        xa, xk = ((mspec,), {'horizon': horizon}) if case.get('kw') == 'one' else \
                 ((), {'mspec': mspec, 'horizon': horizon}) if case.get('kw') == 'all' else ((mspec, horizon), {})
        ref = lib.System.simulate_multiple_times(multi_sim, n, 0, *xa, **xk)
        if len(ref) != n:
            raise Violation('C14.c', f'max_processes=0 returned {len(ref)} systems for {n} simulations', extra={'kind': 'count'})
        ref_fp = [sys_fp(s) for s in ref]
        if any(q[3] == '_finish_work_order' for x in ref_fp for q in x['queue']):
            stats['reach']['result_with_work_order_in_progress'] = 1
        if any(s.env._paused_events for s in ref):
            stats['reach']['result_with_paused_events'] = 1
        for i, s in enumerate(ref):
            if not s.find_assets(name=f'src{i}_0'):
                raise Violation('C14.c', f'in-process result #{i} is not the system of index {i}', extra={'kind': 'index_order'})
        for p in case['procs']:
            SimPool.rng = real_random.Random(case['pool_seed'] + (p or 0))
            SimPool.log = []
            lib.system.concurrent = _FakeConcurrent
            try:
                got = lib.System.simulate_multiple_times(multi_sim, n, p, *xa, **xk)
            finally:
                lib.system.concurrent = real_conc
            stats['multi_runs'] += 1
            stats['pool_placements'] += len(SimPool.log[0]) if SimPool.log else 0
            if SimPool.log and len(set(SimPool.log[0])) < len(SimPool.log[0]):
                stats['reach']['worker_reused'] = stats['reach'].get('worker_reused', 0) + 1
            check_multi(ref_fp, got, n, f'max_processes={p} (simulated pool)')
        if case.get('real_pool'):
            got = lib.System.simulate_multiple_times(multi_sim, n, case['real_pool'], *xa, **xk)
            stats['real_pool_runs'] += 1
            check_multi(ref_fp, got, n, f'max_processes={case["real_pool"]} (real process pool)')
    except Violation as v:
        v.stats = stats
        raise
    except (HarnessError, core.RunTimeout):
        raise
    except Exception as e:
        if not core.raised_in_library(e) and not isinstance(e, PoolBoundaryError):
            raise
        v = Violation('C14.c', f'simulate_multiple_times raised {type(e).__name__}: {e}', extra={'kind': 'exception'})
        v.stats = stats
        raise v
    finally:
        lib.system.concurrent = real_conc
        lib.simulation.random = core.TIEBREAK
        core.end_run()
    stats['sim_time'] = horizon * n * (1 + len(case['procs']))
    stats['dispatches'] = sum(len(x['data'].get('received_part', {}).get('sink', [])) for x in ref_fp)
    return stats, core.digest([x['data'].get('received_part', {}) for x in ref_fp])


def check_multi(ref_fp, got, n, what):
    if len(got) != n:
        raise Violation('C14.c', f'{what}: {len(got)} systems returned for {n} simulations', extra={'kind': 'count'})
    for i, s in enumerate(got):
        if not s.find_assets(name=f'src{i}_0'):
            names = [a.name for a in s._assets][:2]
            raise Violation('C14.c', f'{what}: result #{i} is not the system of index {i} (its assets: {names})',
                            extra={'kind': 'index_order'})
        d = first_diff(ref_fp[i], sys_fp(s))
        if d:
            raise Violation('C14.c', f'{what}: result #{i} differs from the in-process run: {d}', extra={'kind': 'multi_diff'})


def gen_c14_c(rng, real_pool=False):
    stages = []
    for _ in range(rng.choice((1, 1, 2, 3))):
        if rng.random() < 0.7:
            stages.append({'k': 'proc', 'ct': rng.choice((0.25, 0.5, 1, 1.5)), 'rq': rng.random() < 0.7,
                           'default_name': rng.random() < 0.3})
        else:
            stages.append({'k': 'buffer', 'cap': rng.choice((1, 2, 5))})
    resources = {}
    if rng.random() < 0.6:
        resources = {'tool': rng.choice((1, 1, 2))}
        for st in stages:
            if st['k'] == 'proc' and rng.random() < 0.7:
                st['res'] = {'tool': 1}
    mspec = {'seed': rng.randrange(10 ** 6), 'resources': resources,
             'sources': [{'ct': rng.choice((0.5, 1, 1, 2)), 'parts': rng.choice((None, 5, 20))}
                         for _ in range(rng.choice((1, 2, 2, 3)))],
             'stages': stages, 'sink_ct': rng.choice((0, 0.25))}
    if rng.random() < 0.5:
        mspec['extras'] = {
            'cap': rng.choice((1, 2, None)) or INF,
            'orders': [(rng.choice((0.5, 1, 2, 3, 4, 4.5)), rng.choice('ab'), (rng.choice((0, 1, 3, 50)), 1, rng.choice((0, 2))))
                       for _ in range(rng.choice((0, 1, 2, 3)))],
            'fails': [rng.choice((1, 2.5, 4, 8)) for _ in range(rng.choice((0, 0, 1, 2)))],
            'shift': rng.choice((None, [(2, 'on'), (1, 'off')], [(1.5, 'off'), (3, 'on')])),
            'sense': rng.choice((None, 0.5, 2)),
        }
    n = rng.choice((1, 2, 3, 5, 8)) if rng.random() > 0.03 else rng.choice((33, 40))
    procs = rng.sample([1, 2, 3, n, None], rng.choice((2, 3)))
    case = {'engine': 'lifesim_multi', 'mspec': mspec, 'horizon': rng.choice((5, 12, 30)), 'n': n, 'procs': procs,
            'pool_seed': rng.randrange(10 ** 6), 'id_offset': rng.choice((0, 40)),
            'kw': rng.choice((None, None, 'one', 'all'))}
    if rng.random() < 0.04:
        # a long run (a few hundred events per device) for few simulations: what crosses the process boundary must not
        # grow with the history of the run
        case['horizon'] = 160
        case['n'] = min(case['n'], 2)
        case['procs'] = [q if q != n else case['n'] for q in case['procs'][:2]]
    if real_pool:
        case['real_pool'] = rng.choice((1, 2, 3))
    return case


def shrink_c14(case):
    if case['engine'] == 'lifesim_twin':
        from . import floorsim
        for s in floorsim.shrink(case['spec']):
            if case['mode'] == 'split':
                tot = sum(s['plan'])
                s = dict(s, plan=[tot])
                cuts = [c for c in case['cuts'] if c <= tot]
                if not cuts:
                    continue
                yield dict(case, spec=s, cuts=cuts)
            else:
                yield dict(case, spec=s)
        if case['mode'] == 'split' and len(case['cuts']) > 1:
            for i in range(len(case['cuts'])):
                yield dict(case, cuts=case['cuts'][:i] + case['cuts'][i + 1:])
    else:
        if case['n'] > 1:
            yield dict(case, n=max(1, case['n'] // 2))
        if len(case['procs']) > 1:
            for i in range(len(case['procs'])):
                yield dict(case, procs=case['procs'][:i] + case['procs'][i + 1:])
        m = case['mspec']
        if len(m['stages']) > 1:
            for i in range(len(m['stages'])):
                yield dict(case, mspec=dict(m, stages=m['stages'][:i] + m['stages'][i + 1:]))
        if len(m['sources']) > 1:
            yield dict(case, mspec=dict(m, sources=m['sources'][:1]))
        if case['horizon'] > 5:
            yield dict(case, horizon=5)


# ===========================================================================
# C20 lifecycle programs
# ===========================================================================
class LAct:
    def __init__(self, fn, name):
        self.fn = fn
        self.__name__ = name

    def __call__(self):
        self.fn()


ASSET_KINDS = ('source', 'handler', 'proc', 'buffer', 'gate', 'batcher', 'sink', 'maintainer', 'scheduler',
               'psensor', 'osensor', 'cms', 'nestcms')


def make_asset(lib, kind, name, ctx):
    """Construct one asset of the given kind with minimal arguments.  ctx carries objects other kinds need."""
    if kind == 'source':
        return lib.Source(name, cycle_time=1, starting_parts=3)
    if kind == 'handler':
        return lib.PartHandler(name, cycle_time=0.5)
    if kind == 'proc':
        return lib.PartProcessor(name, cycle_time=0.5)
    if kind == 'buffer':
        return lib.Buffer(name, capacity=2)
    if kind == 'gate':
        return lib.DecisionGate(name, decider_override=_gate_all)
    if kind == 'batcher':
        return lib.PartBatcher(name, output_batch_size=2)
    if kind == 'sink':
        return lib.Sink(name)
    if kind == 'maintainer':
        return lib.Maintainer(name)
    if kind == 'scheduler':
        return lib.ActionScheduler([(1, 'a'), (2, 'b')], name=name)
    if kind == 'psensor':
        return lib.PeriodicSensor(0.5, [lib.AttributeProbe('x', ctx['target'])], name=name)
    if kind == 'osensor':
        return lib.OutputPartSensor(ctx['proc'](), [lib.AttributeProbe('quality', None)], name=name)
    if kind == 'cms':
        return lib.Cms(None, name=name)
    if kind == 'nestcms':
        # an asset that builds another asset from inside its own initialize()
        class NestCms(lib.Cms):
            def initialize(self, env):
                super().initialize(env)
                if getattr(self, 'child', None) is None:
                    self.child = lib.PeriodicSensor(0.5, [lib.AttributeProbe('x', ctx['target'])], name=self.name + '_child')
                    ctx['on_child'](self.child)
        return NestCms(None, name=name)
    raise HarnessError(kind)


def _gate_all(gate, part):
    return True


class _T:
    x = 1


def run_c20_registry(case):
    """Programs of system creations, asset constructions, simulate calls and look-ups."""
    lib = core.load_library()
    stats = {'dispatches': 0, 'assets_created': 0, 'queries': 0, 'stale_simulate': 0, 'simulate_calls': 0,
             'reach': {}, 'sim_time': 0.0}
    core.begin_run(None, None, case['tiebreak'], case.get('id_offset', 0))
    init_calls = {}
    keep_alive = []
    orig_init = lib.Asset.initialize
    orig_exec = core._orig['Event.execute']
    viol = []

    def counting_init(self, env):
        init_calls[id(self)] = init_calls.get(id(self), 0) + 1
        keep_alive.append(self)     # ids must not be recycled while they key init_calls
        return orig_init(self, env)

    lib.Asset.initialize = counting_init
    systems = []        # [(system, [assets in registration order])]
    by_id = {}

    class H(core.Hooks):
        def on_execute(self, e):
            stats['dispatches'] += 1
            a = by_id.get(e.asset_id)
            if a is not None and init_calls.get(id(a), 0) == 0:
                viol.append(f'an event of {a.name} executed at {e.time} before the asset was initialised')

    core.CURRENT.hooks = H()
    ctx = {'target': _T()}

    def fail(clause, msg, kind, **extra):
        ex = {'kind': kind}
        ex.update(extra)
        v = Violation(clause, msg, step=step, extra=ex)
        v.stats = stats
        raise v

    def a_proc():
        sysm, lst = systems[-1]
        for a in lst:
            if type(a) is lib.PartProcessor:
                return a
        p = lib.PartProcessor(f'auxproc{len(lst)}', cycle_time=0.5)
        lst.append(p)
        by_id[p.id] = p
        return p

    ctx['proc'] = a_proc

    def on_child(child):
        keep_alive.append(child)
        systems[-1][1].append(child)
        by_id[child.id] = child
        stats['reach']['created_inside_initialize'] = stats['reach'].get('created_inside_initialize', 0) + 1

    ctx['on_child'] = on_child
    step = 0
    try:
        for step, op in enumerate(case['prog'], 1):
            k = op[0]
            if k == 'system':
                if len(op) > 1 and op[1] == 'sub':
                    # a user's own kind of System (with a reporting helper, say) is a System like any other
                    class PlantSystem(lib.System):
                        def report(self):
                            return len(self._assets)
                    systems.append((PlantSystem(), []))
                    stats['reach']['system_subclass'] = stats['reach'].get('system_subclass', 0) + 1
                else:
                    systems.append((lib.System(), []))
            elif k == 'asset':
                if not systems:
                    continue
                sysm, lst = systems[-1]
                name = op[2]
                was_running = sysm._simulation_is_initialized
                n_before = len(lst)
                a = make_asset(lib, op[1], name, ctx)
                keep_alive.append(a)
                if op[1] == 'nestcms':
                    lst.insert(n_before, a)  # a child built inside its initialize() registered after it
                else:
                    lst.append(a)            # helper assets (an output sensor's processor) were built before it
                by_id[a.id] = a
                stats['assets_created'] += 1
                if op[1] != 'source' and len(op) > 3 and op[3] is not None:
                    ups = [x for x in lst if x.name in op[3] and isinstance(x, lib.PartFlowController)
                           and not isinstance(x, lib.Sink) and x is not a]
                    if ups and isinstance(a, lib.PartFlowController):
                        a.set_upstream(ups)
                n = init_calls.get(id(a), 0)
                if was_running:
                    stats['reach']['created_after_start'] = stats['reach'].get('created_after_start', 0) + 1
                    if n != 1:
                        fail('C20.b', f'{op[1]} {name} created after the simulation started was initialised {n} times '
                             f'at creation', 'late_init_count')
                elif n != 0:
                    fail('C20.b', f'{op[1]} {name} was initialised {n} times before the first run', 'early_init')
            elif k == 'simulate':
                si, dur = op[1], op[2]
                if si >= len(systems):
                    continue
                sysm, lst = systems[si]
                stats['simulate_calls'] += 1
                if sysm is not systems[-1][0]:
                    stats['stale_simulate'] += 1
                    before = (sysm.env.now, len(sysm.env._events))
                    try:
                        sysm.simulate(dur, print_summary=False)
                    except RuntimeError:
                        if (sysm.env.now, len(sysm.env._events)) != before:
                            fail('C20.c', 'simulate on a replaced system raised but advanced the run', 'stale_ran')
                    else:
                        fail('C20.c', f'simulate() on system #{si} succeeded although system #{len(systems) - 1} '
                             f'was created after it', 'stale_accepted')
                else:
                    core.CURRENT.env = sysm.env
                    sysm.simulate(dur, print_summary=False)
                    stats['sim_time'] += dur
                    if viol:
                        fail('C20.b', viol[0], 'event_before_init')
                    for a in lst:
                        n = init_calls.get(id(a), 0)
                        if n != 1:
                            fail('C20.b', f'{type(a).__name__} {a.name} has been initialised {n} times after '
                                 f'simulate call #{stats["simulate_calls"]}', 'init_count', cls=type(a).__name__)
            elif k == 'multi':
                # simulate_multiple_times in this process: it creates n systems, the last one is then the newest
                made = []

                def fn(system, index):
                    h = lib.PartHandler(f'mh{index}', cycle_time=0.5)
                    keep_alive.append(h)
                    by_id[h.id] = h
                    made.append((system, [h]))
                    system.simulate(0.5, print_summary=False)
                got = lib.System.simulate_multiple_times(fn, op[1], 0)
                stats['reach']['simulate_multiple_times'] = stats['reach'].get('simulate_multiple_times', 0) + 1
                if len(got) != op[1] or any(g is not m[0] for g, m in zip(got, made)):
                    fail('C20.a', 'simulate_multiple_times did not return the systems it created, in order', 'multi_result')
                systems.extend(made)
            elif k == 'badsim':
                # a simulate() call that fails (negative duration): the system must stay usable afterwards
                si = len(systems) - 1
                if si < 0:
                    continue
                sysm, lst = systems[si]
                core.CURRENT.env = sysm.env
                try:
                    sysm.simulate(-1, print_summary=False)
                except ValueError:
                    stats['reach']['failed_simulate'] = stats['reach'].get('failed_simulate', 0) + 1
                for a in lst:
                    n = init_calls.get(id(a), 0)
                    if n != 1:
                        fail('C20.b', f'{type(a).__name__} {a.name} has been initialised {n} times after a failed simulate call',
                             'init_count')
            elif k == 'readd':
                # add_asset on an already registered asset: nothing may change (checked by the registration oracle below)
                if systems and systems[-1][1]:
                    lst = systems[-1][1]
                    a = lst[op[1] % len(lst)]
                    lib.System.add_asset(a)
                    n = init_calls.get(id(a), 0)
                    if n > 1:
                        fail('C20.b', f'{a.name} was initialised again by a repeated add_asset', 'init_count')
                    stats['reach']['repeated_add_asset'] = stats['reach'].get('repeated_add_asset', 0) + 1
            elif k == 'find':
                if not systems:
                    continue
                si = op[1] % len(systems)
                sysm, lst = systems[si]
                q = op[2]
                kw = {}
                if q.get('name') is not None:
                    kw['name'] = q['name']
                if q.get('idx') is not None and lst:
                    kw['id_'] = lst[q['idx'] % len(lst)].id
                if q.get('type') is not None:
                    kw['type_'] = getattr(lib, q['type'])
                if q.get('subtype') is not None:
                    kw['subtype'] = getattr(lib, q['subtype'])
                got = sysm.find_assets(**kw)
                exp = [a for a in lst
                       if ('name' not in kw or a.name == kw['name'])
                       and ('id_' not in kw or a.id == kw['id_'])
                       and ('type_' not in kw or type(a) is kw['type_'])
                       and ('subtype' not in kw or isinstance(a, kw['subtype']))]
                stats['queries'] += 1
                if len(got) != len(exp) or any(x is not y for x, y in zip(got, exp)):
                    fail('C20.d', f'find_assets({ {k2: getattr(v, "__name__", v) for k2, v in kw.items()} }) on system '
                         f'#{si} returned {[a.name for a in got]}, the registered matching assets are '
                         f'{[a.name for a in exp]}', 'find')
                if exp:
                    stats['reach']['nonempty_query'] = stats['reach'].get('nonempty_query', 0) + 1
                # the result belongs to the caller: what it does with its list must not show in later look-ups
                got.reverse()
                del got[:1]
            # (a) registration: every asset is listed by exactly its own system; parts by none
            for si, (sysm, lst) in enumerate(systems):
                allf = sysm.find_assets()
                if len(allf) != len(lst) or any(x is not y for x, y in zip(allf, lst)):
                    fail('C20.a', f'system #{si} lists {[a.name for a in allf]}, assets constructed while it was the '
                         f'newest system: {[a.name for a in lst]}', 'registration')
                if any(isinstance(a, lib.Part) for a in allf):
                    fail('C20.a', f'system #{si} lists a Part', 'part_registered')
                allf.clear()
    except Violation:
        raise
    except (HarnessError, core.RunTimeout):
        raise
    except Exception as e:
        if not core.raised_in_library(e):
            raise
        import traceback
        w = traceback.extract_tb(e.__traceback__)[-1]
        kind_cls = op[1] if op[0] == 'asset' else None
        clause = 'C20.e' if (op[0] == 'asset' and systems and systems[-1][0]._simulation_is_initialized) else 'C20.x'
        v = Violation(clause, f'program step {step} {op[:3]} raised {type(e).__name__}: {e} at '
                      f'{w.filename.split("/")[-1]}:{w.lineno}', step=step,
                      extra={'kind': 'exception', 'asset_kind': kind_cls})
        v.stats = stats
        raise v
    finally:
        lib.Asset.initialize = orig_init
        core.end_run()
    return stats, core.digest(case['prog'])


def gen_c20_registry(rng, late_kinds=ASSET_KINDS):
    prog = [['system'] + rng.choice(([], [], [], ['sub']))]
    names = ['n0', 'n1', 'n2', 'dup', 'dup']
    made = []
    n_sys = 1
    running = False
    for _ in range(rng.choice((4, 8, 15, 25))):
        x = rng.random()
        if x < 0.5:
            kinds = ASSET_KINDS if not running else late_kinds
            if not kinds:
                continue
            kind = rng.choice(kinds)
            nm = rng.choice(names) if rng.random() < 0.4 else f'a{len(made)}'
            ups = rng.sample(made, min(len(made), rng.choice((0, 1, 2)))) if made else []
            prog.append(['asset', kind, nm, ups])
            made.append(nm)
        elif x < 0.7:
            si = n_sys - 1 if rng.random() < 0.75 else rng.randrange(n_sys)
            prog.append(['simulate', si, rng.choice((0, 0.5, 1, 2.5))])
            if si == n_sys - 1:
                running = True
        elif x < 0.76:
            prog.append(['system'] + rng.choice(([], [], [], ['sub'])))
            n_sys += 1
            made = []
            running = False
        elif x < 0.78:
            k = rng.choice((1, 2, 3))
            prog.append(['multi', k])
            n_sys += k
            made = []
            running = True
        elif x < 0.80:
            prog.append(rng.choice((['badsim'], ['readd', rng.randrange(8)])))
            if prog[-1][0] == 'badsim':
                running = True
        else:
            q = {}
            if rng.random() < 0.5:
                q['name'] = rng.choice(names + made[-2:])
            if rng.random() < 0.3:
                q['idx'] = rng.randrange(10)
            if rng.random() < 0.4:
                q['type'] = rng.choice(('Source', 'PartHandler', 'PartProcessor', 'Buffer', 'Sink', 'Maintainer'))
            if rng.random() < 0.4:
                q['subtype'] = rng.choice(('PartHandler', 'PartFlowController', 'Asset', 'Sensor', 'Maintainable'))
            prog.append(['find', rng.randrange(n_sys), q])
    return {'engine': 'lifesim_registry', 'prog': prog, 'tiebreak': core.gen_tiebreak(rng),
            'id_offset': rng.choice((0, 11))}


# ---------------------------------------------------------------------------
# C20.e late-created assets vs twins
# ---------------------------------------------------------------------------
LATE_SCENARIOS = ('source', 'scheduler', 'psensor', 'osensor', 'maintainer', 'proc', 'chain_handler', 'chain_buffer',
                  'chain_gate', 'chain_batcher', 'chain_sink')


def _observe_late(lib, case, late):
    """Build and run one scenario; `late`=True constructs the asset(s) from inside an event at tau,
    False builds the twin.  Returns a dict of observations."""
    sc, tau, T, p = case['scenario'], case['tau'], case['horizon'], case['params']
    core.begin_run(None, None, case['tiebreak'], case.get('id_offset', 0))
    system = lib.System()
    env = system.env
    obs = {}
    made = {}

    def at(t, pr, fn, name):
        env.schedule_event(t, -2, LAct(fn, name), pr, name)

    pr = p['pr']
    between = case.get('when') == 'between'

    def run_late(mk_fn, total):
        """construct from inside an event at tau, or between two simulate() calls at tau"""
        if between:
            system.simulate(tau, print_summary=False)
            mk_fn()
            system.simulate(total - tau, print_summary=False)
        else:
            at(tau, pr, mk_fn, 'mk')
            system.simulate(total, print_summary=False)
    if sc == 'source':
        def mk():
            s = lib.Source('lsrc', cycle_time=p['ct'], starting_parts=INF if p['parts'] is None else p['parts'])
            lib.Sink('lsink', upstream=[s], cycle_time=p['sink_ct'])
        if late:
            run_late(mk, T)
            shift = tau
        else:
            mk()
            system.simulate(T - tau, print_summary=False)
            shift = 0
        obs['deliveries'] = [r[0] - shift for r in env.simulation_data.get('received_part', {}).get('lsink', [])]
        obs['supplied'] = [r[0] - shift for r in env.simulation_data.get('supplied_new_part', {}).get('lsrc', [])]
    elif sc == 'scheduler':
        log = []

        def mk():
            s = lib.ActionScheduler([tuple(x) for x in p['timetable']], name='lsched', is_cyclical=p['cyc'])
            s.register_object('obj', lambda sch, o, t, st: log.append((t, st)))
            made['s'] = s
        if late:
            run_late(mk, T)
            shift = tau
        else:
            mk()
            system.simulate(T - tau, print_summary=False)
            shift = 0
        obs['updates'] = [(r[0] - shift, r[1]) for r in env.simulation_data.get('schedule_update', {}).get('lsched', [])]
        # objects registered right after construction are served from the next change on
        obs['actions'] = [(t - shift, st) for t, st in log if t - shift > 0]
        obs['state'] = made['s'].current_state if 's' in made else None
    elif sc == 'psensor':
        tgt = _T()

        def mk():
            made['s'] = lib.PeriodicSensor(p['interval'], [lib.AttributeProbe('x', tgt)], name='lsens',
                                           data_capacity=INF if p['cap'] is None else p['cap'])
        if late:
            run_late(mk, T)
            shift = tau
        else:
            mk()
            system.simulate(T - tau, print_summary=False)
            shift = 0
        s = made.get('s')
        obs['times'] = [t - shift for t in s.data.get('time', [])] if s is not None else None
        obs['n'] = len([k for k in s.data if not isinstance(k, str)]) if s is not None else None
    elif sc == 'osensor':
        src = lib.Source('osrc', cycle_time=p['ct'])
        proc = lib.PartProcessor('oproc', [src], cycle_time=p['ct'])
        lib.Sink('osink', [proc])
        fin = []
        proc.add_finish_processing_callback(lambda pr_, part: fin.append((env.now, part.id)))
        seen = []

        def mk():
            s = lib.OutputPartSensor(proc, [lib.AttributeProbe('id', None)], p['n'], name='lsens')
            made['n_before'] = len(fin)
            # index (among the parts finished after creation) of the part being measured, and the value read
            s.add_on_sense_callback(lambda sn, t, d: seen.append((len(fin) - 1 - made['n_before'], d[0] == fin[-1][1])))
        if late:
            at(tau, pr, mk, 'mk')
        else:
            # twin: an independent statement of the rule on the parts finished after tau
            at(tau, pr, lambda: made.__setitem__('n_before', len(fin)), 'mark')
        system.simulate(T, print_summary=False)
        after = [x[1] for x in fin[made.get('n_before', 0):]]
        if late:
            obs['measured'] = [list(x) for x in seen]
        else:
            obs['measured'] = [[i, True] for i in range(0, len(after), p['n'] + 1)]
    elif sc == 'maintainer':
        class Tg(lib.Maintainable):
            name = 'tgt'

            def get_work_order_duration(self, tag):
                return p['dur']

            def get_work_order_cost(self, tag):
                return 2
        tg = Tg()
        rets = []

        def mk():
            made['m'] = lib.Maintainer('lmaint', capacity=1, value=10)

        def order():
            rets.append(made['m'].create_work_order(tg, 'x'))
        opr = pr - 0.5 if p['delta'] == 0 else 5
        if late:
            at(tau, pr, mk, 'mk')
        else:
            mk()
        at(tau + p['delta'], opr, order, 'order')
        system.simulate(T, print_summary=False)
        obs['returns'] = rets
        for lab in ('enter_queue', 'start_work_order', 'finish_work_order'):
            obs[lab] = [tuple(r) for r in env.simulation_data.get(lab, {}).get('lmaint', [])]
        obs['value'] = made['m'].value if 'm' in made else None
    elif sc == 'proc' or sc.startswith('chain_'):
        src = lib.Source('csrc', cycle_time=p['ct'], starting_parts=INF if p['parts'] is None else p['parts'])
        kind = 'proc' if sc == 'proc' else sc[len('chain_'):]

        def mk(blocked):
            if kind == 'proc':
                d = lib.PartProcessor('cdev', [src], cycle_time=p['dct'])
            elif kind == 'handler':
                d = lib.PartHandler('cdev', [src], cycle_time=p['dct'])
            elif kind == 'buffer':
                d = lib.Buffer('cdev', [src], minimum_delay=p['dct'], capacity=2)
            elif kind == 'gate':
                d = lib.DecisionGate('cdev', [src], decider_override=_gate_all)
            elif kind == 'batcher':
                d = lib.PartBatcher('cdev', [src], output_batch_size=2)
            elif kind == 'sink':
                d = None
            if d is not None:
                snk = lib.Sink('csink', [d], cycle_time=p['sink_ct'])
                first = d
            else:
                snk = lib.Sink('csink', [src], cycle_time=p['sink_ct'])
                first = snk
            if blocked:
                first.block_input = True
            made['first'], made['dev'] = first, d
        if late:
            run_late(lambda: mk(False), T)
        else:
            mk(True)
            # between two runs the device appears after every event of instant tau: the twin unblocks last
            at(tau, 1.5 if between else pr, lambda: setattr(made['first'], 'block_input', False), 'unblock')
            system.simulate(T, print_summary=False)
        obs['deliveries'] = [r[0] for r in env.simulation_data.get('received_part', {}).get('csink', [])]
        obs['count'] = system.find_assets(name='csink')[0].received_parts_count if system.find_assets(name='csink') else None
        if kind == 'proc' and made.get('dev') is not None:
            d = made['dev']
            # twin: the machine exists (blocked) since 0; the late one since tau
            obs['uptime'] = d.uptime - (0 if late else tau)
            obs['utilization'] = d.utilization_time
    else:
        raise HarnessError(sc)
    return obs


def run_c20_late(case):
    lib = core.load_library()
    stats = {'dispatches': 0, 'late_scenarios': 1, 'reach': {case['scenario']: 1, 'when_' + case.get('when', 'event'): 1},
             'sim_time': case['horizon']}
    sc = case['scenario']
    cls = {'source': 'Source', 'scheduler': 'ActionScheduler', 'psensor': 'PeriodicSensor', 'osensor': 'OutputPartSensor',
           'maintainer': 'Maintainer', 'proc': 'PartProcessor'}.get(sc, sc)
    try:
        twin = _observe_late(lib, case, late=False)
    finally:
        core.end_run()
    try:
        try:
            got = _observe_late(lib, case, late=True)
        finally:
            core.end_run()
    except (HarnessError, core.RunTimeout):
        raise
    except Exception as e:
        if not core.raised_in_library(e):
            raise
        import traceback
        w = traceback.extract_tb(e.__traceback__)[-1]
        v = Violation('C20.e', f'{cls} constructed from inside an event at t={case["tau"]}: {type(e).__name__}: {e} at '
                      f'{w.filename.split("/")[-1]}:{w.lineno}', extra={'kind': 'late_exception', 'cls': cls})
        v.stats = stats
        raise v
    d = first_diff(twin, got)
    if d:
        v = Violation('C20.e', f'{cls} constructed at t={case["tau"]} does not behave like its twin created before the '
                      f'start ({"shifted by tau" if sc in ("source", "scheduler", "psensor") else "same absolute times"}): '
                      f'{d} (twin vs late)', extra={'kind': 'late_diff', 'cls': cls})
        v.stats = stats
        raise v
    stats['dispatches'] = 10 + len(str(got))
    return stats, core.digest(got)


def gen_c20_late(rng, scenarios=LATE_SCENARIOS):
    sc = rng.choice(scenarios)
    tau = rng.choice((0.25, 0.5, 1, 2.5, 4))
    T = tau + rng.choice((3, 6, 10))
    p = {'pr': rng.choice((2, 5, 8, 11))}
    if sc == 'source':
        p.update(ct=rng.choice((0, 0.5, 1, 2)), parts=rng.choice((None, 3, 5)), sink_ct=rng.choice((0, 0.5)))
        if p['ct'] == 0 and p['parts'] is None and p['sink_ct'] == 0:
            p['parts'] = 4
    elif sc == 'scheduler':
        tt = [[rng.choice((0.5, 1, 2)), rng.choice('abc')] for _ in range(rng.randint(1, 4))]
        p.update(timetable=tt, cyc=rng.random() < 0.6)
    elif sc == 'psensor':
        p.update(interval=rng.choice((0.25, 0.5, 1)), cap=rng.choice((None, 2, 5)))
    elif sc == 'osensor':
        p.update(ct=rng.choice((0.25, 0.5, 1)), n=rng.choice((0, 1, 2)))
    elif sc == 'maintainer':
        p.update(dur=rng.choice((0, 0.5, 1, 2)), delta=rng.choice((0, 0.25, 1)))
    else:
        p.update(ct=rng.choice((0.5, 1, 2)), parts=rng.choice((None, 3, 6)), dct=rng.choice((0, 0.25, 0.5, 1)),
                 sink_ct=rng.choice((0, 0.5)))
    when = 'between' if (sc not in ('osensor', 'maintainer') and rng.random() < 0.35) else 'event'
    return {'engine': 'lifesim_late', 'scenario': sc, 'tau': tau, 'horizon': T, 'params': p, 'when': when,
            'tiebreak': core.gen_tiebreak(rng), 'id_offset': rng.choice((0, 21))}


def shrink_c20(case):
    if case['engine'] == 'lifesim_registry':
        prog = case['prog']
        for i in range(1, len(prog)):
            yield dict(case, prog=prog[:i] + prog[i + 1:])
    else:
        if case['horizon'] - case['tau'] > 3:
            yield dict(case, horizon=case['tau'] + 3)
        if case['tau'] != 1:
            yield dict(case, tau=1, horizon=case['horizon'] - case['tau'] + 1)
