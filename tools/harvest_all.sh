#!/bin/sh
# tools/harvest_all.sh <wave> <ids...>: harvest seeded/1..3 of the given property ids
W="$1"; shift
for P in "$@"; do for K in 1 2 3; do
  [ -d /tmp/${W}_$P/seeded/$K ] || continue
  /verif/tools/harvest.py $P $K --wave=$W | /venv/bin/python -c "
import json,sys
d=json.load(sys.stdin)
print('$P-$W-$K', 'confirmed' if d['confirmed'] else 'NOT-CONFIRMED '+str(d['demo_clean'])[:40]+str(d['demo_patched'])[:60]+d['tests_with_patch'], [f.split('/')[-1] for f in d['patched_files']], {c:(v['exit'], v['first'][:170]) for c,v in d['checks'].items()})"
done; done
