#!/bin/sh
# tools/reverify_seeded.sh [jobs]: re-verify every kept seeded change (patch.diff in /verif/seeded/<tag>/) against /repo HEAD
# and the current checks: patch applies, demo PASS -> FAIL, 150 tests pass, the property's quick check reports a violation.
J="${1:-4}"
ls /verif/seeded | while read T; do
  P=$(echo $T | cut -d- -f1); R=$(echo $T | cut -d- -f2-)
  case "$R" in w*-*) W="--wave=$(echo $R | cut -d- -f1)"; K=$(echo $R | cut -d- -f2);; *) W="--wave="; K=$R;; esac
  echo "$P $K $W"
done | xargs -P "$J" -L 1 sh -c '/verif/tools/harvest.py $0 $1 $2 --stored | /venv/bin/python -c "
import json,sys
d=json.load(sys.stdin)
c=d[\"checks\"][d[\"property\"]]
print(d[\"property\"], sys.argv[1], sys.argv[2], \"confirmed\" if d[\"confirmed\"] else \"NOT-CONFIRMED\", \"caught\" if c[\"exit\"]==1 else \"MISSED exit=%s\" % c[\"exit\"])" $1 "$2"'
