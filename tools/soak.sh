#!/bin/sh
# tools/soak.sh <tier> <first seed> <last seed> [ids...]: run checks under several VERIF_SEEDs, print anything that is not a clean pass
T="$1"; A="$2"; B="$3"; shift 3
IDS="${*:-C01 C02 C03 C04 C05 C06 C07 C08 C09 C10 C11 C12 C13 C14 C15 C16 C17 C18 C19 C20}"
for S in $(seq $A $B); do for P in $IDS; do
  OUT=$(VERIF_SEED=$S SIMV_REPLAY_DIR=${SIMV_REPLAY_DIR:-./replays} ./check $P --tier $T --no-evidence 2>&1); RC=$?
  echo "seed=$S $P exit=$RC $(echo "$OUT" | grep 'tier=' | tail -1 | cut -c1-170)"
  if [ $RC -ne 0 ]; then echo "$OUT" | grep -v '^KNOWN' | head -8 | cut -c1-600; fi
done; done
