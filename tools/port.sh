#!/bin/sh
# tools/port.sh <seed tag> <python edit script>: re-create a seeded patch.diff on a clean export of /repo HEAD
T="$1"; S="$2"
D=$(mktemp -d /tmp/simv_port.XXXX); git -C /repo archive HEAD | tar -x -C $D
cd $D && git init -q . && git add -A >/dev/null && git -c user.email=a@b -c user.name=a commit -qm base >/dev/null
/venv/bin/python "$S" || { echo EDIT FAILED; rm -rf $D; exit 1; }
git diff > /verif/seeded/$T/patch.diff; cd /verif; rm -rf $D; wc -l /verif/seeded/$T/patch.diff
