"""Core of the deterministic simulator harness for simprocesd.

Everything here is deterministic given (VERIF_SEED, property, index) and the
code under /repo (or $SIMV_REPO).  No real clock is read on any path that
influences a run; wall time is only measured around whole batches for the
evidence file.
"""
import atexit
import hashlib
import json
import os
import random as _pyrandom
import shutil
import signal
import sys
import tempfile
import time as _walltime
import traceback
import types

VERIF_DIR = os.path.dirname(os.path.dirname(os.path.abspath(__file__)))
REPO_DIR = os.environ.get('SIMV_REPO', '/repo')

_lib = None  # namespace with the library classes once loaded


# --------------------------------------------------------------------------
# Import of the library under test (always from the working tree)
# --------------------------------------------------------------------------
def load_library():
    """Import simprocesd from REPO_DIR's working tree with heavy unrelated
    imports stubbed.  Returns a namespace of the classes the harness uses."""
    global _lib
    if _lib is not None:
        return _lib
    sys.dont_write_bytecode = True
    # matplotlib is only used by simprocesd.utils plotting helpers.
    if 'matplotlib' not in sys.modules:
        mpl = types.ModuleType('matplotlib')
        plt = types.ModuleType('matplotlib.pyplot')
        mpl.pyplot = plt
        mpl.__path__ = []
        sys.modules['matplotlib'] = mpl
        sys.modules['matplotlib.pyplot'] = plt
    if REPO_DIR in sys.path:
        sys.path.remove(REPO_DIR)
    sys.path.insert(0, REPO_DIR)
    for k in [k for k in sys.modules if k == 'simprocesd' or k.startswith('simprocesd.')]:
        del sys.modules[k]
    import simprocesd  # noqa
    here = os.path.realpath(os.path.dirname(simprocesd.__file__))
    want = os.path.realpath(os.path.join(REPO_DIR, 'simprocesd'))
    if here != want:
        raise HarnessError(f'simprocesd imported from {here}, expected {want}')
    import simprocesd.model.simulation as simulation
    import simprocesd.model.system as system
    import simprocesd.model.resource_manager as resource_manager
    import simprocesd.model.factory_floor as ff
    import simprocesd.model.factory_floor.group as group
    import simprocesd.model.factory_floor.asset as asset
    import simprocesd.model.sensors as sensors
    import simprocesd.model.cms as cms
    ns = types.SimpleNamespace(
        simulation=simulation, system=system, resource_manager=resource_manager,
        ff=ff, group=group, asset=asset, sensors=sensors, cms=cms,
        Event=simulation.Event, Environment=simulation.Environment,
        EventType=simulation.EventType, System=system.System,
        ResourceManager=resource_manager.ResourceManager,
        ReservedResources=resource_manager.ReservedResources,
        Asset=asset.Asset, Part=ff.Part, PartGenerator=ff.PartGenerator,
        Batch=ff.Batch, PartHandler=ff.PartHandler,
        PartFlowController=ff.PartFlowController, DecisionGate=ff.DecisionGate,
        Group=ff.Group, GroupPath=group.GroupPath, GroupInput=group.GroupInput,
        GroupOutput=group.GroupOutput, PartBatcher=ff.PartBatcher,
        PartProcessor=ff.PartProcessor, Source=ff.Source, Buffer=ff.Buffer,
        Sink=ff.Sink, Maintainable=ff.Maintainable, Maintainer=ff.Maintainer,
        ActionScheduler=ff.ActionScheduler, Probe=sensors.Probe,
        AttributeProbe=sensors.AttributeProbe, Sensor=sensors.Sensor,
        PeriodicSensor=sensors.PeriodicSensor,
        OutputPartSensor=sensors.OutputPartSensor, Cms=cms.Cms)
    # silence the library's diagnostic prints (module-global shadows builtin)
    for m in (simulation, resource_manager, system):
        m.print = _quiet_print
    _lib = ns
    _install_seams(ns)
    return ns


def _quiet_print(*a, **k):
    pass


class HarnessError(Exception):
    """The harness itself could not do its job (never reported as success)."""


class Starved(HarnessError):
    """No dispatch went through the wrappers (a run that returns at once looks the same as lost instrumentation)."""


class RunTimeout(BaseException):
    """Raised by SIGALRM inside a run that does not return."""


class StepCap(Exception):
    """A run exceeded its dispatch caps (treated as 'does not return')."""


# --------------------------------------------------------------------------
# Seeds
# --------------------------------------------------------------------------
def derive_seed(verif_seed, prop, index, salt=''):
    h = hashlib.sha256(f'{verif_seed}|{prop}|{index}|{salt}'.encode()).digest()
    return int.from_bytes(h[:8], 'big')


def digest(obj):
    return hashlib.sha256(json.dumps(obj, sort_keys=True, default=str).encode()).hexdigest()[:16]


# --------------------------------------------------------------------------
# Tie-break seam
# --------------------------------------------------------------------------
TIE_MODES = ('uniform', 'const', 'fifo', 'lifo', 'coarse', 'starve_lose', 'starve_win')


class TieBreaker:
    """Stands in for the `random` module inside simprocesd.model.simulation.

    Every value returned by random() is a legal outcome of random.random().
    Other attributes are delegated to a private generator so that library code
    using other functions of the module keeps working."""

    def __init__(self):
        self.reset('uniform', 0)

    def reset(self, mode, seed, starve_asset=None):
        self.mode = mode
        self._rng = _pyrandom.Random(seed)
        self._n = 0
        self.starve_asset = starve_asset
        self.draws = 0

    def random(self):
        self.draws += 1
        m = self.mode
        if m == 'uniform' or m.startswith('starve'):
            return self._rng.random()
        if m == 'const':
            return 0.5
        if m == 'fifo':
            self._n += 1
            return self._n / 2.0 ** 40
        if m == 'lifo':
            self._n += 1
            return 1.0 - self._n / 2.0 ** 40
        if m == 'coarse':
            return self._rng.choice((0.25, 0.5, 0.75))
        raise HarnessError(f'unknown tie mode {m}')

    def __getattr__(self, name):
        return getattr(self._rng, name)


TIEBREAK = TieBreaker()


class Hooks:
    """Per-run callbacks; a run installs one instance in CURRENT."""
    def before_step(self, env): pass
    def after_step(self, env, event): pass
    def on_execute(self, event): pass
    def on_event_created(self, event): pass


class _Current:
    hooks = None
    env = None            # only the environment of the run under test is hooked
    dispatches = 0        # counted by the step wrapper
    executes = 0          # counted by the execute wrapper
    last_event = None
    content_weights = None  # dict for 'content' mode (C14) or None


CURRENT = _Current()
_orig = {}


def _install_seams(ns):
    sim = ns.simulation
    sim.random = TIEBREAK

    Event, Environment = ns.Event, ns.Environment
    _orig['Event.__init__'] = Event.__init__
    _orig['Event.execute'] = Event.execute
    _orig['Environment.step'] = Environment.step

    def event_init(self, *a, **k):
        _orig['Event.__init__'](self, *a, **k)
        tb = TIEBREAK
        if tb.starve_asset is not None and getattr(self, 'asset_id', None) == tb.starve_asset:
            # one device always loses (or wins) weight ties; still a legal draw
            self.random_weight = (1.0 - 2.0 ** -30) if tb.mode == 'starve_lose' else 0.0
        cw = CURRENT.content_weights
        if cw is not None:
            self.random_weight = cw(self)
        h = CURRENT.hooks
        if h is not None:
            h.on_event_created(self)

    def event_execute(self):
        CURRENT.executes += 1
        CURRENT.last_event = self
        h = CURRENT.hooks
        if h is not None:
            h.on_execute(self)
        return _orig['Event.execute'](self)

    def env_step(self):
        h = CURRENT.hooks
        if h is None or CURRENT.env is not self:
            return _orig['Environment.step'](self)
        CURRENT.dispatches += 1
        CURRENT.last_event = None
        h.before_step(self)
        _orig['Environment.step'](self)
        h.after_step(self, CURRENT.last_event)

    Event.__init__ = event_init
    Event.execute = event_execute
    Environment.step = env_step


def begin_run(hooks, env, tiebreak, id_offset=0):
    """Reset all process-global state the library keeps, install hooks."""
    ns = load_library()
    TIEBREAK.reset(tiebreak.get('mode', 'uniform'), tiebreak.get('seed', 0),
                   tiebreak.get('starve'))
    ns.Asset._id_counter = id_offset
    CURRENT.hooks = hooks
    CURRENT.env = env
    CURRENT.dispatches = 0
    CURRENT.executes = 0
    CURRENT.last_event = None
    CURRENT.content_weights = None


def end_run():
    CURRENT.hooks = None
    CURRENT.env = None
    CURRENT.content_weights = None


def gen_tiebreak(rng, allow_starve=False):
    modes = ['uniform', 'uniform', 'const', 'fifo', 'lifo', 'coarse']
    if allow_starve:
        modes += ['starve_lose', 'starve_win']
    return {'mode': rng.choice(modes), 'seed': rng.randrange(2 ** 32)}


# --------------------------------------------------------------------------
# Violations and results
# --------------------------------------------------------------------------
class Violation(Exception):
    def __init__(self, clause, message, step=None, time=None, extra=None):
        super().__init__(f'{clause}: {message}')
        self.clause = clause
        self.message = message
        self.step = step
        self.time = time
        self.extra = extra or {}

    def to_json(self):
        return {'clause': self.clause, 'message': self.message, 'step': self.step,
                'time': self.time, 'extra': self.extra}


def result(status, case=None, violation=None, stats=None, digest_=None, note=None):
    return {'status': status, 'violation': violation, 'stats': stats or {},
            'digest': digest_, 'note': note}


def run_guarded(fn, case, timeout_s=20.0, timeout_clause=None):
    """Run fn(case) -> (stats, digest) under a wall-clock alarm.

    Returns a result dict; never raises for library behaviour.  A property
    that speaks about termination passes timeout_clause: the timeout is then
    a violation of that clause instead of a harness error."""
    def on_alarm(signum, frame):
        raise RunTimeout()
    old = signal.signal(signal.SIGALRM, on_alarm)
    signal.setitimer(signal.ITIMER_REAL, timeout_s)
    try:
        try:
            stats, dg = fn(case)
            return result('ok', stats=stats, digest_=dg)
        except Violation as v:
            return result('violation', violation=v.to_json(),
                          stats=getattr(v, 'stats', None) or {})
        except Aborted as a:
            return result('aborted', stats=a.stats, note=a.note)
        except HarnessError as e:
            return result('harness_error', note=f'{e}\n{traceback.format_exc()}')
        except RunTimeout:
            if timeout_clause:
                return result('violation', violation=Violation(
                    timeout_clause, 'run did not return within the wall-time limit',
                    extra={'kind': 'timeout'}).to_json())
            return result('timeout', note='run exceeded wall timeout')
        except RecursionError as e:
            return result('harness_error', note='RecursionError outside oracle scope\n'
                          + traceback.format_exc()[-2000:])
        except Exception as e:  # harness bug: never a pass
            return result('harness_error', note=f'{type(e).__name__}: {e}\n'
                          + traceback.format_exc()[-3000:])
    finally:
        signal.setitimer(signal.ITIMER_REAL, 0)
        signal.signal(signal.SIGALRM, old)
        end_run()


def raised_in_library(exc):
    """True if the innermost frame that belongs to either the library or the
    harness belongs to the library."""
    tb = exc.__traceback__
    frames = []
    while tb is not None:
        frames.append(tb.tb_frame.f_code.co_filename)
        tb = tb.tb_next
    repo = os.path.realpath(REPO_DIR)
    mine = os.path.realpath(os.path.join(VERIF_DIR, 'simv'))
    for fn in reversed(frames):
        fn = os.path.realpath(fn)
        if fn.startswith(repo + os.sep):
            return True
        if fn.startswith(mine + os.sep):
            return False
    return False


class Aborted(Exception):
    """The library raised under a property that does not speak about it."""
    def __init__(self, note, stats=None):
        super().__init__(note)
        self.note = note
        self.stats = stats or {}


# --------------------------------------------------------------------------
# Number grids
# --------------------------------------------------------------------------
def dy(rng, choices):
    return rng.choice(choices)


GRID_TIMES = (0, 0.25, 0.5, 0.75, 1, 1.25, 1.5, 2, 2.5, 3, 4)
GRID_CT = (0, 0.25, 0.5, 1, 1.5, 2, 3)


def wall():
    return _walltime.time()


_HOME = None


def scratch_home():
    """A per-process scratch HOME (with Downloads/) for the library's trace export: below $SIMV_SCRATCH when the command line
    driver made one (it removes the tree at exit), else a temporary directory removed at interpreter exit."""
    global _HOME
    pid = os.getpid()
    if _HOME is not None and _HOME[0] == pid and os.path.isdir(_HOME[1]):
        return _HOME[1]
    base = os.environ.get('SIMV_SCRATCH')
    if base and os.path.isdir(base):
        home = os.path.join(base, f'home_{pid}')
    else:
        home = tempfile.mkdtemp(prefix='simv_home_')
        atexit.register(shutil.rmtree, home, True)
    os.makedirs(os.path.join(home, 'Downloads'), exist_ok=True)
    _HOME = (pid, home)
    return home
