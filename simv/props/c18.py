from .. import core, schedsim
from ..driver import Prop


class C18(Prop):
    id = 'C18'
    design_ref = 'DESIGN.md section 4 / C18'
    budgets = {'quick': 100000, 'thorough': 1000000}

    def gen(self, rng, index, tier):
        return schedsim.gen_sched(rng)

    def run(self, case):
        return schedsim.run_case(case)

    def shrink(self, case):
        return schedsim.shrink_sched(case)

    def nontrivial(self, stats):
        return stats.get('dispatches', 0) >= 5


PROP = C18()
