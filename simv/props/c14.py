"""C14 - reproducibility: same seed same results; runs can be split and parallelised."""
from .. import core, lifesim
from ..driver import Prop


class C14(Prop):
    id = 'C14'
    design_ref = 'DESIGN.md section 4 / C14'
    budgets = {'quick': 12000, 'thorough': 250000}
    timeout_s = 60.0

    def gen(self, rng, index, tier):
        if index % 4 == 3:
            return lifesim.gen_c14_c(rng, real_pool=(index % (40 if tier == 'thorough' else 200) == 3))
        return lifesim.gen_c14_ab(rng, all_cuts=(tier == 'thorough' and index % 5 == 0))

    def run(self, case):
        if case['engine'] == 'lifesim_multi':
            return lifesim.run_c14_c(case)
        return lifesim.run_c14_ab(case)

    def shrink(self, case):
        return lifesim.shrink_c14(case)

    def nontrivial(self, stats):
        return stats.get('dispatches', 0) >= 10


PROP = C14()
