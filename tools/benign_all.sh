#!/bin/sh
# tools/benign_all.sh [jobs] [runs]: run every check against every behaviour-preserving change kept under /verif/benign/;
# prints the checks that do not exit 0 (none expected).  Patches whose context was changed by a later commit in /repo
# print "PATCH DID NOT APPLY".
J="${1:-3}"; R="${2:-4000}"
ls -d /verif/benign/*/ | sed 's#/$##' | xargs -P "$J" -I{} /verif/tools/patchall.sh {}/patch.diff "$R"
