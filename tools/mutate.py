#!/venv/bin/python
"""First-order mutation screening of simprocesd/model against the checks.

  tools/mutate.py list                          -> number of mutants per file
  tools/mutate.py run OUT.jsonl [--files a,b] [--jobs 16] [--runs 600] [--limit N] [--shard i/n]

For every mutant: copy the library to a scratch dir, apply the mutation, run the repository's 150 tests; if they pass
(a "survivor", i.e. a realistic change the suite cannot see) run every property's check at a reduced budget against
the copy and record which checks report a violation.  Nothing is written under /repo or /verif except OUT.jsonl."""
import ast
import concurrent.futures as cf
import json
import os
import shutil
import subprocess
import sys
import tempfile

REPO = '/repo'
FILES = ['simprocesd/model/simulation.py', 'simprocesd/model/system.py', 'simprocesd/model/resource_manager.py',
         'simprocesd/model/factory_floor/asset.py', 'simprocesd/model/factory_floor/part.py',
         'simprocesd/model/factory_floor/batch.py', 'simprocesd/model/factory_floor/part_flow_controller.py',
         'simprocesd/model/factory_floor/part_handler.py', 'simprocesd/model/factory_floor/part_processor.py',
         'simprocesd/model/factory_floor/buffer.py', 'simprocesd/model/factory_floor/source.py',
         'simprocesd/model/factory_floor/sink.py', 'simprocesd/model/factory_floor/decision_gate.py',
         'simprocesd/model/factory_floor/part_batcher.py', 'simprocesd/model/factory_floor/group.py',
         'simprocesd/model/factory_floor/maintainer.py', 'simprocesd/model/factory_floor/action_scheduler.py',
         'simprocesd/model/sensors/sensor.py', 'simprocesd/model/sensors/part_sensor.py', 'simprocesd/model/cms/cms.py']
CHECKS = [f'C{i:02d}' for i in range(1, 21)]
CMP = {ast.Lt: '<=', ast.LtE: '<', ast.Gt: '>=', ast.GtE: '>', ast.Eq: '!=', ast.NotEq: '==', ast.Is: 'is not',
       ast.IsNot: 'is', ast.In: 'not in', ast.NotIn: 'in'}
BIN = {ast.Add: '-', ast.Sub: '+', ast.Mult: '/', ast.Div: '*'}


def seg(src_lines, node):
    """(start_offset, end_offset) of a node in the flat source"""
    starts = [0]
    for l in src_lines:
        starts.append(starts[-1] + len(l))
    return starts[node.lineno - 1] + node.col_offset, starts[node.end_lineno - 1] + node.end_col_offset


def mutants_of(path):
    src = open(os.path.join(REPO, path)).read()
    lines = src.splitlines(keepends=True)
    tree = ast.parse(src)
    out = []

    def add(a, b, new, kind, line):
        if src[a:b] != new:
            out.append({'file': path, 'line': line, 'kind': kind, 'a': a, 'b': b, 'old': src[a:b][:60], 'new': new[:60],
                        'text': src[:a] + new + src[b:]})

    docstrings = set()
    for n in ast.walk(tree):
        if isinstance(n, (ast.FunctionDef, ast.ClassDef, ast.Module)) and n.body and isinstance(n.body[0], ast.Expr) \
                and isinstance(getattr(n.body[0], 'value', None), ast.Constant) and isinstance(n.body[0].value.value, str):
            docstrings.add(id(n.body[0]))
    for n in ast.walk(tree):
        if isinstance(n, ast.Compare) and len(n.ops) == 1:
            op = type(n.ops[0])
            if op in CMP:
                a = seg(lines, n.left)[1]
                b = seg(lines, n.comparators[0])[0]
                add(a, b, f' {CMP[op]} ', 'cmp', n.lineno)
        elif isinstance(n, ast.BinOp) and type(n.op) in BIN:
            a = seg(lines, n.left)[1]
            b = seg(lines, n.right)[0]
            if isinstance(n.left, ast.Constant) and isinstance(n.left.value, str):
                continue
            add(a, b, f' {BIN[type(n.op)]} ', 'binop', n.lineno)
        elif isinstance(n, ast.BoolOp):
            for l, r in zip(n.values, n.values[1:]):
                a = seg(lines, l)[1]
                b = seg(lines, r)[0]
                add(a, b, ' or ' if isinstance(n.op, ast.And) else ' and ', 'boolop', n.lineno)
        elif isinstance(n, ast.UnaryOp) and isinstance(n.op, ast.Not):
            a, b = seg(lines, n)
            oa, ob = seg(lines, n.operand)
            add(a, b, '(' + src[oa:ob] + ')', 'not', n.lineno)
        elif isinstance(n, ast.Constant) and not isinstance(n.value, str) and n.value is not None and n.value is not Ellipsis:
            a, b = seg(lines, n)
            if isinstance(n.value, bool):
                add(a, b, str(not n.value), 'const', n.lineno)
            elif isinstance(n.value, (int, float)):
                add(a, b, repr(n.value + 1), 'const', n.lineno)
                if n.value != 0:
                    add(a, b, repr(0 if n.value == 1 else n.value - 1), 'const', n.lineno)
        elif isinstance(n, ast.AugAssign) and type(n.op) in (ast.Add, ast.Sub):
            a = seg(lines, n.target)[1]
            b = seg(lines, n.value)[0]
            add(a, b, ' -= ' if isinstance(n.op, ast.Add) else ' += ', 'augassign', n.lineno)
        elif isinstance(n, ast.Expr) and isinstance(n.value, ast.Call) and id(n) not in docstrings:
            a, b = seg(lines, n)
            add(a, b, 'pass', 'del_call', n.lineno)
        elif isinstance(n, ast.Return) and n.value is not None:
            a, b = seg(lines, n.value)
            if isinstance(n.value, ast.Constant) and isinstance(n.value.value, bool):
                continue
            add(a, b, 'not (' + src[a:b] + ')', 'ret_not', n.lineno)
        elif isinstance(n, ast.If):
            a, b = seg(lines, n.test)
            add(a, b, 'not (' + src[a:b] + ')', 'if_not', n.lineno)
        elif isinstance(n, ast.Assign) and len(n.targets) == 1 and isinstance(n.targets[0], ast.Attribute) \
                and isinstance(n.value, ast.Constant) and n.value.value is None:
            a, b = seg(lines, n)
            add(a, b, 'pass', 'del_reset', n.lineno)
        elif isinstance(n, (ast.Break, ast.Continue)):
            a, b = seg(lines, n)
            add(a, b, 'pass', 'del_break', n.lineno)
        elif isinstance(n, ast.Subscript) and isinstance(n.slice, ast.UnaryOp) and isinstance(n.slice.op, ast.USub):
            a, b = seg(lines, n.slice)
            add(a, b, '0', 'index', n.lineno)
    # inside asserts and f-strings nothing observable: drop mutants whose line is an assert or only a message
    keep = []
    for m in out:
        ltxt = lines[m['line'] - 1].strip()
        if ltxt.startswith(('assert ', 'assert_', 'raise ', 'print(', "f'", '+f', "+ f'", "'")):
            continue
        try:
            ast.parse(m['text'])
        except SyntaxError:
            continue
        keep.append(m)
    return keep


def all_mutants(files):
    ms = []
    for f in files:
        for i, m in enumerate(mutants_of(f)):
            m['id'] = f"{os.path.basename(f)}:{m['line']}:{m['kind']}:{i}"
            ms.append(m)
    return ms


def run_one(m, runs, checks):
    d = tempfile.mkdtemp(prefix='simv_mutate.')
    res = {k: m[k] for k in ('id', 'file', 'line', 'kind', 'old', 'new')}
    try:
        subprocess.run(f'git -C {REPO} archive HEAD simprocesd | tar -x -C {d}', shell=True, check=True)
        with open(os.path.join(d, m['file']), 'w') as f:
            f.write(m['text'])
        env = dict(os.environ, PYTHONPATH=d, PYTHONDONTWRITEBYTECODE='1')
        try:
            t = subprocess.run('timeout 120 /venv/bin/python -m pytest -q -x -p no:cacheprovider simprocesd/tests/model 2>&1 | tail -1',
                               shell=True, cwd=d, env=env, capture_output=True, text=True)
            res['tests_pass'] = ' passed' in t.stdout and 'failed' not in t.stdout and 'error' not in t.stdout
        except Exception as e:
            res['tests_pass'] = False
        if not res['tests_pass']:
            return res
        res['checks'] = {}
        env = dict(os.environ, SIMV_REPO=d, SIMV_REPLAY_DIR=os.path.join(d, 'replays'), SIMV_NO_SHRINK='1')
        for c in checks:
            r = runs if c not in ('C03',) else max(100, runs // 3)
            if c in ('C01', 'C07', 'C09', 'C10', 'C12', 'C18', 'C19', 'C04'):
                r = runs * 4
            try:
                p = subprocess.run(['/verif/check', c, '--runs', str(r), '--workers', '1', '--no-evidence'],
                                   env=env, capture_output=True, text=True, timeout=900)
                res['checks'][c] = p.returncode
                if p.returncode == 1 and 'first' not in res:
                    line = next((l for l in p.stdout.splitlines() if l.startswith('  C')), '')
                    res['first'] = line.strip()[:200]
            except subprocess.TimeoutExpired:
                res['checks'][c] = 'timeout'
        return res
    finally:
        shutil.rmtree(d, ignore_errors=True)


def main():
    if sys.argv[1] == 'list':
        tot = 0
        for f in FILES:
            n = len(mutants_of(f))
            tot += n
            print(f'{n:5d} {f}')
        print(tot)
        return
    out = sys.argv[2]
    args = sys.argv[3:]
    def opt(name, default):
        return args[args.index(name) + 1] if name in args else default
    files = [f for f in FILES if opt('--files', None) is None or os.path.basename(f) in opt('--files', '').split(',')]
    jobs = int(opt('--jobs', 16))
    runs = int(opt('--runs', 600))
    checks = opt('--checks', ','.join(CHECKS)).split(',')
    ms = all_mutants(files)
    if '--shard' in args:
        i, n = map(int, opt('--shard', '0/1').split('/'))
        ms = ms[i::n]
    if '--limit' in args:
        ms = ms[:int(opt('--limit', 0))]
    done = set()
    if os.path.exists(out):
        for l in open(out):
            try:
                done.add(json.loads(l)['id'])
            except Exception:
                pass
    ms = [m for m in ms if m['id'] not in done]
    print(f'{len(ms)} mutants to run, {len(done)} already done', flush=True)
    with cf.ThreadPoolExecutor(jobs) as ex, open(out, 'a') as fo:
        futs = [ex.submit(run_one, m, runs, checks) for m in ms]
        for k, fu in enumerate(cf.as_completed(futs)):
            r = fu.result()
            fo.write(json.dumps(r) + '\n')
            fo.flush()
            if k % 25 == 0:
                print(k, r['id'], r.get('tests_pass'), flush=True)


if __name__ == '__main__':
    main()
