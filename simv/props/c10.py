"""C10 - waiting resource requests are served exactly once, in order, only when feasible."""
from .. import core, poolsim
from ..driver import Prop


class C10(Prop):
    id = 'C10'
    design_ref = 'DESIGN.md section 4 / C10'
    budgets = {'quick': 150000, 'thorough': 1500000}

    def gen(self, rng, index, tier):
        return poolsim.gen_c10(rng)

    def run(self, case):
        return poolsim.run_c10(case)

    def shrink(self, case):
        return poolsim.shrink_c10(case)

    def nontrivial(self, stats):
        return stats.get('callbacks', 0) >= 1


PROP = C10()
