"""envsim: raw Environment programs checked in lockstep against an executable
queue model (C01 order/clock/run semantics, C07 pause/resume/cancel)."""
import itertools

from . import core
from .core import Violation, HarnessError, Aborted

TERMINATE_PR = 1


# ---------------------------------------------------------------------------
# Reference model: a dict-based queue, no sorting, no library code.
# ---------------------------------------------------------------------------
class QModel:
    def __init__(self):
        self.now = 0
        self.q = {}        # label -> [time, pr, asset]
        self.paused = {}   # label -> [time, pr, asset, paused_at]
        self.cancelled = set()

    def sched(self, label, t, pr, asset):
        self.q[label] = [t, pr, asset]

    def pause(self, asset):
        if asset is None:
            return
        for lb in [lb for lb, r in self.q.items() if r[2] == asset]:
            t, pr, a = self.q.pop(lb)
            self.paused[lb] = [t, pr, a, self.now]

    def unpause(self, asset):
        if asset is None:
            return
        for lb in [lb for lb, r in self.paused.items() if r[2] == asset]:
            t, pr, a, at = self.paused.pop(lb)
            # original time plus the length of the pause; never before the present (float rounding, see F11)
            self.q[lb] = [max(self.now, t + (self.now - at)), pr, a]

    def cancel(self, asset):
        if asset is None:
            return
        for lb, r in list(self.q.items()) + list(self.paused.items()):
            if r[2] == asset:
                self.cancelled.add(lb)

    def min_key(self):
        return min(((r[0], -r[1]) for r in self.q.values()), default=None)


class ModelDropped(Exception):
    """internal: under C01 the lockstep model was abandoned after a C07-class mismatch"""


class _NullModel:
    """absorbs model updates once the model was dropped"""
    now = 0
    q = {}
    paused = {}
    cancelled = frozenset()

    def __getattr__(self, name):
        return lambda *a, **k: None


class Act:
    """Action of a generated event: runs its script, logs itself."""
    def __init__(self, runner, ev):
        self.runner = runner
        self.ev = ev
        self.label = ev['id']
        self.__name__ = f"act{ev['id']}"

    def __call__(self):
        self.runner.on_action(self)


class EnvRunner(core.Hooks):
    """Executes one envsim case on the real Environment, model in lockstep.

    own: set of clause prefixes this check reports ('C01' or 'C07')."""

    def __init__(self, case, own):
        self.case = case
        self.own = own
        self.lib = core.load_library()
        self.model = QModel()
        self.log = []            # (label, now) for each action invocation
        self.step_no = 0
        self.term_n = 0
        self.stats = {'dispatches': 0, 'actions': 0, 'ops': {}, 'reach': {},
                      'tie_groups': 0, 'sim_time': 0.0, 'past_rejected': 0}
        self.trace = []          # dispatch sequence for the digest
        self.prev_now = 0
        self.in_dispatch = None
        self.model_ok = True
        self.unpaused_labels = set()
        self.next_label = None
        self.acts = {}
        self.created = []
        self.dispatched = set()

    # ---- helpers -------------------------------------------------------
    def bump(self, d, k, n=1):
        d[k] = d.get(k, 0) + n

    def fail(self, clause, msg, kind=None, labels=()):
        """Report a violated clause.  A check reports only its own property's clauses:
        * C07 owns order/clock violations that involve an event it resumed (the consequence of a wrong re-insertion);
        * under C01 a pause/resume/cancel mismatch (C07's business) does not end the run: the model is dropped and the
          run continues with the model-free clauses (minimum of the real queue, clock, at-most-once, run end)."""
        if self.own == 'C07' and clause.startswith('C01') and any(lb in self.unpaused_labels for lb in labels):
            clause = 'C07.a'
            msg = 'after a resume: ' + msg
        if self.own == 'C01' and not clause.startswith('C01'):
            if self.model_ok:
                self.model_ok = False
                self.stats['model_dropped'] = self.stats.get('model_dropped', 0) + 1
            raise ModelDropped()
        extra = {'kind': kind} if kind else {}
        v = Violation(clause, msg, step=self.step_no, time=self.env.now, extra=extra)
        v.stats = self.stats
        raise v

    def label_of(self, e):
        a = e.action
        lb = getattr(e, '_simv_label', None)
        if lb is not None:
            return lb
        if isinstance(a, Act):
            return a.label
        f = getattr(a, '__func__', None)
        if f is not None and getattr(f, '__name__', '') == '_terminate':
            return getattr(e, '_simv_label', None) or 'T?'
        return f'?{getattr(a, "__name__", a)}'

    def on_event_created(self, e):
        if self.next_label is not None:
            e._simv_label = self.next_label
            self.next_label = None
            self.created.append(e)      # model-free ledger of the harness's own events (see check_live_events)
        if not isinstance(e.action, Act):
            # the only library-created events in envsim are TERMINATE events
            self.term_n += 1
            e._simv_label = f'T{self.term_n}'

    def compare_state(self, after_op):
        if not self.model_ok:
            return
        try:
            self._compare_state(after_op)
        except ModelDropped:
            self.model = _NullModel()

    def _compare_state(self, after_op):
        """Real queue / paused list vs the model, as multisets."""
        env, m = self.env, self.model
        real_q, real_p = {}, {}
        for e in env._events:
            lb = self.label_of(e)
            if lb in real_q:
                self.fail('C01.d', f'event {lb} is queued twice after {after_op}', 'dup')
            real_q[lb] = e
        for e in env._paused_events:
            lb = self.label_of(e)
            if lb in real_p or lb in real_q:
                self.fail('C07.c', f'event {lb} present twice (queue/paused) after {after_op}', 'dup')
            real_p[lb] = e
        pausey = after_op in ('pause', 'unpause', 'cancel')
        cl_set = 'C07.b' if pausey else 'C01.f'
        # a cancelled event never runs again: whether it stays queued until its turn or is dropped at once is the
        # implementation's business - forget the ones that are gone
        for lb in [lb for lb in m.q if lb not in real_q and lb in m.cancelled]:
            del m.q[lb]
        for lb in [lb for lb in m.paused if lb not in real_p and lb in m.cancelled]:
            del m.paused[lb]
        if set(real_q) != set(m.q):
            self.fail(cl_set, f'after {after_op}: queued events {sorted(map(str, real_q))} '
                      f'but the model has {sorted(map(str, m.q))}', 'qset')
        if set(real_p) != set(m.paused):
            self.fail('C07.b', f'after {after_op}: paused events {sorted(map(str, real_p))} '
                      f'but the model has {sorted(map(str, m.paused))}', 'pset')
        for lb, e in real_q.items():
            if e.time != m.q[lb][0]:
                self.fail('C07.a' if (pausey or self.ever_unpaused(lb)) else 'C01.f',
                          f'after {after_op}: event {lb} is due at {e.time}, model says {m.q[lb][0]}',
                          'time')
            if bool(e.cancelled) != (lb in m.cancelled):
                self.fail('C07.b', f'after {after_op}: event {lb} cancelled={e.cancelled}, '
                          f'model says {lb in m.cancelled}', 'cancel')
        for lb, e in real_p.items():
            if e.time != m.paused[lb][0] or e.paused_at != m.paused[lb][3]:
                self.fail('C07.c', f'after {after_op}: paused event {lb} has time={e.time} '
                          f'paused_at={e.paused_at}, model says time={m.paused[lb][0]} '
                          f'paused_at={m.paused[lb][3]}', 'ptime')
            if bool(e.cancelled) != (lb in m.cancelled):
                self.fail('C07.b', f'after {after_op}: paused event {lb} cancelled={e.cancelled}, '
                          f'model says {lb in m.cancelled}', 'cancel')

    def check_live_events(self, t0, d):
        """Model-free: every event the harness scheduled that is live (not cancelled, not withheld by a pause), was due
        by the end of the run and was not dispatched must at least still be queued (then the 'left' clause speaks);
        one that is nowhere can never run.  Reads only the real Event objects, so it stays on after the lockstep model
        was dropped."""
        env = self.env
        held = {id(x) for x in env._events} | {id(x) for x in env._paused_events}
        for x in self.created:
            if x.cancelled or id(x) in self.dispatched or id(x) in held:
                continue
            if x.time < t0 + d or (x.time == t0 + d and x.event_type > TERMINATE_PR):
                self.fail('C01.e', f'run({d}) from {t0} returned but live event {self.label_of(x)} due at {x.time} was '
                          f'never executed: it is neither queued nor paused', 'vanished')

    def ever_unpaused(self, lb):
        return lb in self.unpaused_labels

    def aid(self, a):
        """asset id as handed to the Environment: optionally far outside the small-int cache and always a fresh object"""
        if a is None or a < 0:
            return a
        base = self.case.get('id_base', 0)
        return int(str(base + a)) if base else a

    # ---- ops (called from the driver and from inside actions) -----------
    def apply_op(self, op):
        env, m = self.env, self.model
        kind = op[0]
        self.bump(self.stats['ops'], kind)
        if kind == 'sched':
            ev = op[1]
            t = env.now + ev['d']
            act = Act(self, ev)
            labels = [ev['id']] + ([f"{ev['id']}twin"] if ev.get('twin') else [])
            for lb in labels:
                # with 'twin' the very same callable is scheduled twice for the same time, asset and priority:
                # two events, both must run
                self.next_label = lb
                try:
                    env.schedule_event(t, self.aid(ev['a']), act, ev['pr'], f"m{ev['id']}")
                except ValueError as e:
                    self.fail('C01.c', f'scheduling at {t} >= now={env.now} was rejected: {e}', 'reject')
                if self.next_label is not None:
                    self.next_label = None
                    self.fail('C01.f', f'schedule_event created no event for {lb}', 'no_event')
                m.sched(lb, t, ev['pr'], ev['a'])
                if len(labels) > 1:
                    self.bump(self.stats['reach'], 'same_callable_twice')
            if ev['a'] in {r[2] for r in m.paused.values()}:
                self.bump(self.stats['reach'], 'sched_while_paused')
        elif kind == 'past':
            d = op[1]
            if d == 'ulp':
                import math
                t = math.nextafter(env.now, float('-inf'))     # the closest representable time before now
            elif d == 'rel':
                t = env.now * (1 - 2.0 ** -40)
                if not t < env.now:
                    t = env.now - 2.0 ** -40
            else:
                t = env.now - d
            if not t < env.now:
                return          # at this clock the offset is below one ulp: not a time in the past
            before = (list(env._events), list(env._paused_events), env.now)
            try:
                env.schedule_event(t, 1, Act(self, {'id': 'past', 's': []}), 5, 'past')
            except ValueError:
                self.stats['past_rejected'] += 1
                if (list(env._events), list(env._paused_events), env.now) != before:
                    self.fail('C01.c', 'rejected schedule_event changed queue or clock', 'rej_state')
            else:
                self.fail('C01.c', f'schedule_event(time={t}) accepted although now={env.now}', 'past')
        elif kind == 'pause':
            a = op[1]
            had_q = any(r[2] == a for r in m.q.values())
            had_p = any(r[2] == a for r in m.paused.values())
            env.pause_matching_events(asset_id=self.aid(a))
            m.pause(a)
            if had_q and env.now != 0:
                self.bump(self.stats['reach'], 'pause_nonzero_with_pending')
            if had_p and not had_q:
                self.bump(self.stats['reach'], 'redundant_pause_with_paused')
            if had_p and had_q:
                self.bump(self.stats['reach'], 'nested_pause')
        elif kind == 'unpause':
            a = op[1]
            shifted = [lb for lb, r in m.paused.items() if r[2] == a]
            for lb in shifted:
                r = m.paused[lb]
                if m.now - r[3] > 0:
                    self.bump(self.stats['reach'], 'unpause_shift_gt0')
                if lb in m.cancelled:
                    self.bump(self.stats['reach'], 'resume_cancelled')
                self.unpaused_labels.add(lb)
            if not shifted:
                self.bump(self.stats['reach'], 'redundant_unpause')
            env.unpause_matching_events(asset_id=self.aid(a))
            m.unpause(a)
        elif kind == 'cancel':
            a = op[1]
            if any(r[2] == a for r in m.paused.values()):
                self.bump(self.stats['reach'], 'cancel_paused')
            env.cancel_matching_events(asset_id=self.aid(a))
            m.cancel(a)
        elif kind == 'newenv':
            # another Environment comes to life (and pauses something of its own): this one must not notice
            other = self.lib.Environment()
            other.schedule_event(1, self.aid(1), lambda: None, 5)
            other.pause_matching_events(asset_id=self.aid(1))
            self.others.append(other)
            self.bump(self.stats['reach'], 'second_environment')
        elif kind == 'noop':
            pass
        else:
            raise HarnessError(f'unknown op {op}')
        m_now = m.now
        if self.model_ok and env.now != m_now:
            self.fail('C01.b', f'clock moved to {env.now} during op {kind} (was {m_now})', 'clock')
        self.compare_state(kind)

    def on_action(self, act):
        env = self.env
        lb = self.label_of(self.in_dispatch) if self.in_dispatch is not None else act.label
        self.log.append((lb, env.now))
        self.stats['actions'] += 1
        if self.in_dispatch is None:
            self.fail('C01.d', f'action of {act.label} invoked outside a dispatch', 'outside')
        if env.now != self.in_dispatch.time:
            self.fail('C01.b', f'clock reads {env.now} inside the action of an event due at '
                      f'{self.in_dispatch.time}', 'clock_in_action')
        for op in act.ev.get('s', ()):
            self.apply_op(op)

    # ---- dispatch hooks ---------------------------------------------------
    def before_step(self, env):
        self.step_no += 1
        q = list(env._events)
        if not q:
            raise HarnessError('step on empty queue (generator bug)')
        self.snap = q
        self.min_key = min((e.time, -e.event_type) for e in q)
        ties = sum(1 for e in q if (e.time, -e.event_type) == self.min_key)
        if ties > 1:
            self.stats['tie_groups'] += 1
        self.log_len = len(self.log)
        self.in_dispatch = None
        self.prev_now = env.now

    def on_execute(self, e):
        self.in_dispatch = e
        # keep the model clock in step so ops inside the action see it
        self.model.now = e.time
        lb = self.label_of(e)
        rec = self.model.q.get(lb)
        if rec is not None:
            # checked fully in after_step; pop now so that ops inside the
            # action compare against the right model state
            self.popped = (lb, self.model.q.pop(lb))
        else:
            self.popped = (lb, None)

    def after_step(self, env, e):
        self.stats['dispatches'] += 1
        m = self.model
        if e is None:
            self.fail('C01.a', 'step() executed no event', 'noexec')
        lb, rec = self.popped
        if not any(e is x for x in self.snap):
            self.fail('C01.a', f'executed event {lb} was not in the queue', 'notqueued')
        if (e.time, -e.event_type) != self.min_key:
            first = [self.label_of(x) for x in self.snap if (x.time, -x.event_type) == self.min_key]
            self.fail('C01.a', f'executed {lb} (time={e.time}, priority={float(e.event_type)}) but the '
                      f'queue held an event with time={self.min_key[0]} priority={-self.min_key[1]}',
                      'notmin', labels=[lb] + first)
        if env.now != e.time:
            self.fail('C01.b', f'clock is {env.now} after executing an event due at {e.time}', 'clock', labels=[lb])
        if env.now < self.prev_now:
            self.fail('C01.b', f'clock went backwards: {self.prev_now} -> {env.now}', 'backwards', labels=[lb])
        if any(e is x for x in env._events):
            self.fail('C01.d', f'executed event {lb} is still queued', 'requeued')
        self.dispatched.add(id(e))
        if not self.model_ok:
            # model-free remainder: the action of a live harness event runs exactly once in its dispatch
            new = self.log[self.log_len:]
            if isinstance(e.action, Act) and not e.cancelled:
                if len([x for x in new if x[0] == lb]) != 1 or self.exec_count.get(lb):
                    self.fail('C01.d', f'action of {lb} ran {len(new)} times / again', 'count')
                self.exec_count[lb] = 1
            self.trace.append((str(lb), e.time))
            self.in_dispatch = None
            return
        try:
            if rec is None:
                self.fail('C01.f', f'executed event {lb} is not pending in the model '
                          f'(model queue: {sorted(map(str, m.q))})', 'unknown')
            if rec[0] != e.time:
                self.fail('C07.a' if self.ever_unpaused(lb) else 'C01.f',
                          f'event {lb} executed at {e.time}, model expected {rec[0]}', 'exec_time')
            new = self.log[self.log_len:]
            mine = [x for x in new if x[0] == lb]
            if lb in m.cancelled:
                if mine:
                    self.fail('C07.b', f'action of cancelled event {lb} ran', 'cancelled_ran')
            elif isinstance(e.action, Act):
                if len(mine) != 1:
                    self.fail('C01.d', f'action of {lb} ran {len(mine)} times in its dispatch', 'count')
                if self.exec_count.get(lb):
                    self.fail('C01.d', f'action of {lb} ran again', 'twice')
                self.exec_count[lb] = 1
            if len(new) != len(mine):
                self.fail('C01.d', f'dispatch of {lb} ran actions {new}', 'foreign')
        except ModelDropped:
            self.model = _NullModel()
        self.trace.append((str(lb), e.time))
        self.in_dispatch = None
        self.compare_state('dispatch')
        if self.step_no > 5000:
            raise core.StepCap('envsim step cap')

    # ---- driver -------------------------------------------------------------
    def run(self):
        lib = self.lib
        self.env = env = lib.Environment()
        core.begin_run(self, env, self.case['tiebreak'])
        self.exec_count = {}
        self.others = []
        m = self.model
        for drv in self.case['driver']:
            kind = drv[0]
            if kind == 'run':
                d = drv[1]
                t0 = env.now
                self.term_n_before = self.term_n
                m.q[f'T{self.term_n + 1}'] = [t0 + d, TERMINATE_PR, -1]
                env.run(d)
                self.stats['sim_time'] += d
                if env.now != t0 + d:
                    self.fail('C01.e', f'run({d}) from {t0} ended with the clock at {env.now}', 'endclock')
                for e in env._events:
                    if e.time < t0 + d or (e.time == t0 + d and e.event_type > TERMINATE_PR):
                        self.fail('C01.e', f'run({d}) from {t0} returned leaving event '
                                  f'{self.label_of(e)} due at {e.time} (priority {float(e.event_type)})',
                                  'left')
                if env.is_simulation_in_progress():
                    self.fail('C01.e', 'is_simulation_in_progress() is True after run returned', 'inprog')
                self.check_live_events(t0, d)
                self.bump(self.stats['ops'], 'run')
            elif kind == 'step':
                if env._events:
                    env.step()
                    self.bump(self.stats['ops'], 'step')
            else:
                m.now = env.now
                self.apply_op(drv)
        if core.CURRENT.dispatches != core.CURRENT.executes:
            raise HarnessError(f'dispatch wrappers disagree: step={core.CURRENT.dispatches} '
                               f'execute={core.CURRENT.executes}')
        if self.stats['actions'] and not self.stats['dispatches']:
            raise HarnessError('actions ran but no dispatch was observed')
        return self.stats, core.digest(self.trace)


def run_case(case, own):
    r = EnvRunner(case, own)
    try:
        stats, dg = r.run()
    except Violation as v:
        if not v.clause.startswith(own):
            a = Aborted(f'foreign clause {v.clause}: {v.message}', r.stats)
            raise a
        raise
    except (core.StepCap,) as e:
        raise Aborted(str(e), r.stats)
    except (HarnessError, core.RunTimeout):
        raise
    except Exception as e:
        if not core.raised_in_library(e):
            raise
        v = Violation(own + '.x', f'{type(e).__name__} escaped the environment: {e}',
                      step=r.step_no, time=getattr(r.env, 'now', None), extra={'kind': 'exception'})
        v.stats = r.stats
        raise v
    return stats, dg


# ---------------------------------------------------------------------------
# Generators
# ---------------------------------------------------------------------------
PRIOS = (2, 3, 4, 5, 6, 7, 8, 9, 10, 11, 4.9, 5.5, 1.5, 7.25, 10.5, 11.5)
DELAYS = (0, 0, 0.25, 0.5, 0.5, 1, 1, 1.5, 2, 3)
DEC_DELAYS = (0, 0.1, 0.2, 0.3, 0.3, 0.7, 1.1, 0.1 + 0.2)   # not exactly representable: nearly equal, unequal times
DURS = (0, 0.25, 0.5, 1, 1, 2, 3, 5)


class _Gen:
    def __init__(self, rng, n_assets, max_events, pause_bias, few_prios):
        self.rng = rng
        self.n_assets = n_assets
        self.left = max_events
        self.ids = itertools.count(1)
        self.pause_bias = pause_bias
        self.prios = rng.sample(PRIOS, 3) if few_prios else PRIOS
        self.delays = rng.sample(DELAYS, 3) if few_prios else DELAYS
        if rng.random() < 0.12:
            self.delays = DEC_DELAYS

    def asset(self):
        return self.rng.randint(0, self.n_assets)      # 0 is a legal asset id too

    def ev(self, depth):
        rng = self.rng
        self.left -= 1
        e = {'id': next(self.ids), 'd': rng.choice(self.delays), 'a': self.asset() if rng.random() > 0.04 else -1,
             'pr': rng.choice(self.prios), 's': []}
        if depth < 3:
            for _ in range(rng.choice((0, 0, 0, 1, 1, 2, 3))):
                if self.left <= 0:
                    break
                e['s'].append(self.op(depth + 1))
        if not e['s'] and rng.random() < 0.06:
            e['twin'] = True      # (only events without a script: a script would create its children twice)
        return e

    def op(self, depth):
        rng = self.rng
        x = rng.random()
        pb = self.pause_bias
        if x < 0.55 - pb * 0.3:
            return ['sched', self.ev(depth)]
        if x < 0.57 - pb * 0.3:
            return ['newenv']
        if x < 0.60 - pb * 0.3:
            return ['past', rng.choice((0.25, 0.5, 1, 2.0 ** -20, 'ulp', 'ulp', 'rel'))]
        x = rng.random()
        if x < 0.38:
            return ['pause', self.asset()]
        if x < 0.76:
            return ['unpause', self.asset()]
        if x < 0.97:
            return ['cancel', self.asset()]
        return [rng.choice(('pause', 'unpause', 'cancel')), None]


def gen_program(rng, pause_bias=0.0):
    g = _Gen(rng, rng.choice((2, 3, 3, 4)), rng.choice((6, 15, 30, 60)), pause_bias,
             rng.random() < 0.5)
    driver = []
    for _ in range(rng.randint(1, 6)):
        if g.left > 0:
            driver.append(['sched', g.ev(0)])
    n = rng.randint(1, 12)
    for _ in range(n):
        x = rng.random()
        if x < 0.45:
            driver.append(['run', rng.choice(DURS)])
        elif x < 0.55:
            driver.append(['step'])
        elif g.left > 0:
            driver.append(g.op(0))
    if pause_bias and rng.random() < 0.7:
        # guaranteed: pause an id with pending events at a non-zero time, let
        # time pass, resume it, then flush
        a = g.asset()
        pre = [['sched', {'id': next(g.ids), 'd': rng.choice((1, 1.5, 2, 3)), 'a': a,
                          'pr': rng.choice(g.prios), 's': []}] for _ in range(rng.randint(1, 3))]
        mid = [['run', rng.choice((0.25, 0.5, 0.75))], ['pause', a]]
        if rng.random() < 0.4:
            mid.append(['cancel', a])
        if rng.random() < 0.3:
            mid += [['run', 0.25], ['pause', a]]
        mid += [['run', rng.choice((0.25, 0.5, 1, 2))], ['unpause', a]]
        pos = rng.randint(0, len(driver))
        driver[pos:pos] = pre + mid
    driver.append(['run', rng.choice((4, 8, 16))])
    if rng.random() < (0.12 if pause_bias else 0.06):
        # a late clock: one ulp is large, relative tolerances are wide
        driver.insert(0, ['run', float(rng.choice((2 ** 20, 2 ** 30, 2 ** 30, 2 ** 40, 10 ** 6 + 0.5)))])
    case = {'engine': 'envsim', 'tiebreak': core.gen_tiebreak(rng), 'driver': driver}
    if rng.random() < 0.15:
        case['id_base'] = 100000      # asset ids that are not small cached integers
    return case


SYS_ALPHA = ([['sched', a, d] for a in (1, 2) for d in (0.5, 1.5)]
             + [[k, a] for k in ('pause', 'unpause', 'cancel') for a in (1, 2)]
             + [['run', 0.5], ['run', 1]])


def systematic_count(max_len=4):
    return sum(len(SYS_ALPHA) ** k for k in range(1, max_len + 1))


def systematic_program(n):
    """n-th op sequence (length 1..4) over SYS_ALPHA, mixed-radix counter.
    Every program starts at a non-zero time with two pending events."""
    base = len(SYS_ALPHA)
    length = 1
    while n >= base ** length:
        n -= base ** length
        length += 1
    seq = []
    for _ in range(length):
        seq.append(SYS_ALPHA[n % base])
        n //= base
    ids = itertools.count(10)
    driver = [['sched', {'id': 1, 'd': 1.25, 'a': 1, 'pr': 5, 's': []}],
              ['sched', {'id': 2, 'd': 1.25, 'a': 2, 'pr': 5, 's': []}],
              ['run', 0.25]]
    for o in seq:
        if o[0] == 'sched':
            driver.append(['sched', {'id': next(ids), 'd': o[2], 'a': o[1], 'pr': 5, 's': []}])
        else:
            driver.append(list(o))
    driver.append(['run', 8])
    return {'engine': 'envsim', 'tiebreak': {'mode': 'const', 'seed': 0}, 'driver': driver,
            'systematic': True}


# ---------------------------------------------------------------------------
# Shrinking
# ---------------------------------------------------------------------------
def _strip_children(ev):
    """yield variants of ev with one script op removed (recursively)"""
    for i in range(len(ev.get('s', ()))):
        e2 = dict(ev)
        e2['s'] = ev['s'][:i] + ev['s'][i + 1:]
        yield e2
    for i, op in enumerate(ev.get('s', ())):
        if op[0] == 'sched':
            for sub in _strip_children(op[1]):
                e2 = dict(ev)
                e2['s'] = ev['s'][:i] + [['sched', sub]] + ev['s'][i + 1:]
                yield e2


def shrink(case):
    drv = case['driver']
    n = len(drv)
    # drop chunks, then single ops
    size = n // 2
    while size >= 1:
        for i in range(0, n, size):
            c = dict(case)
            c['driver'] = drv[:i] + drv[i + size:]
            if c['driver']:
                yield c
        size //= 2
    for i, op in enumerate(drv):
        if op[0] == 'sched':
            for sub in _strip_children(op[1]):
                c = dict(case)
                c['driver'] = drv[:i] + [['sched', sub]] + drv[i + 1:]
                yield c
            if op[1]['pr'] != 5:
                c = dict(case)
                e2 = dict(op[1]); e2['pr'] = 5
                c['driver'] = drv[:i] + [['sched', e2]] + drv[i + 1:]
                yield c
    if case['tiebreak'].get('mode') != 'const':
        c = dict(case)
        c['tiebreak'] = {'mode': 'const', 'seed': 0}
        yield c
