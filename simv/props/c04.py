"""C04 - serial-line timing equals the blocking-after-service recurrence."""
from .. import core, linesim
from ..driver import Prop


class C04(Prop):
    id = 'C04'
    design_ref = 'DESIGN.md section 4 / C04'
    budgets = {'quick': 60000, 'thorough': 1000000}
    timeout_s = 60.0

    def gen(self, rng, index, tier):
        if index < len(linesim.EXAMPLES):
            c = dict(linesim.EXAMPLES[index])
            c['tiebreak'] = core.gen_tiebreak(rng)
            c['id_offset'] = 0
            return c
        return linesim.gen_case(rng)

    def run(self, case):
        return linesim.run_case(case)

    def shrink(self, case):
        if case.get('example'):
            return iter(())
        return linesim.shrink(case)

    def nontrivial(self, stats):
        return stats.get('arrivals_compared', 0) >= 3


PROP = C04()
