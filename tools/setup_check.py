"""setup_cmd: nothing to build or fetch; verify the harness imports and sees /repo's working tree."""
import os, sys
sys.dont_write_bytecode = True
sys.path.insert(0, os.path.dirname(os.path.dirname(os.path.abspath(__file__))))
from simv import core
ns = core.load_library()
print('simv ok; library at', ns.simulation.__file__)
