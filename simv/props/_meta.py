"""Claim texts, rules, assumptions and reach-probe floors per property (used by MANIFEST and evidence)."""

FLOOR_RULE = ('one run = one generated floor spec (1-3 sources incl. batch sources, 1-4 layers of handlers / processors '
              '(resources, callbacks) / buffers / batchers / complementary gate sets / group paths into shared, '
              're-entrant and nested groups, 1-2 sinks, optional maintainer and resource pools), an op list of 0-40 '
              'faults placed on the same dyadic time grid as the library events with priorities above, between and below '
              'the built-in event types, a run plan (one horizon or split), a tie-break adversary and an id offset. ')

META = {
 'C01': dict(
  sanity={'tie_groups': 50, 'past_rejected': 50}),
 'C02': dict(
  level_text='Seeded search over random factory models x fault/op schedules x tie-break adversaries; a census of every generated part (device slots, buffer contents, batches under construction, sinks, reported losses) is taken after every dispatched event. Sampling, not proof: the property quantifies over all topologies and schedules.',
  level_note="Trusts the harness census (reads private slots), the spec generator's well-posedness rules, and shutdown callbacks as the report channel for lost parts.",
  rule=FLOOR_RULE + 'c02 profile: all 12 fault kinds. Non-trivial = generated >= 2 parts and dispatched >= 10 events; distinct = distinct digest of the dispatch sequence.',
  assumptions=['a part is "reported lost" when a shutdown callback receives it with is_failure=True'],
  faults=('fail', 'shutdown', 'restore', 'block', 'addres', 'adjust', 'rewire', 'wo', 'wake')),
 'C03': dict(
  faults=('fail', 'shutdown', 'restore', 'block', 'addres', 'adjust', 'rewire')),
 'C04': dict(
  level_text='Seeded search over serial lines (0-6 stations of mixed kinds, one horizon or the same horizon in 2-3 consecutive simulate() calls, cycle times/delays incl. zero, buffer capacities 1..inf, part budgets incl. 0, horizons, tie-break adversaries, id offsets): every arrival time recorded at every station is compared with == against an independent 30-line max-plus recurrence; the two serial examples are rebuilt from their parameters and must give their documented counts. Sampling of configurations; exact comparison per configuration.',
  level_note='Trusts the reference recurrence (simv/linesim.py reference(), no library code) and the dyadic grid for exact float equality.',
  rule='linesim: one run = one serial line; indices 0-1 are examples/SingleProcessor (99) and examples/BufferExample (10079). Non-trivial = >= 3 arrival times compared; distinct = distinct dispatch-sequence digest.',
  assumptions=['cycle times, delays and horizons are dyadic; an unlimited zero-cycle source is only generated in front of a positive-time finite stage (DESIGN.md 2.5)'],
  real_vs_stub={'real': ['Source, PartHandler, PartProcessor, Buffer, Sink, Environment, System'], 'stub': ['tie-break weights', 'PartGenerator subclass']}),
 'C05': dict(
  level_text='Seeded search with a buffer-heavy profile (several producers/consumers per buffer, batches and empty batches, consumers that are busy, failed, blocked or resource-starved); level, capacity, FIFO-prefix and minimum-delay invariants checked on every buffer after every dispatched event.',
  level_note='Reads Buffer.stored_parts/level()/capacity/minimum_delay (public) after each event; arrival instant = first event after which the harness sees the part in the buffer; one-ulp tolerance on the delay as the property grants.',
  rule=FLOOR_RULE + 'c05 profile. Non-trivial = >= 2 parts generated and >= 10 dispatches; distinct = dispatch digest.',
  reach={'buffer_departures': 500, 'buffer_full': 50}),
 'C06': dict(
  level_text='Seeded search over models with cycle-time-changing callbacks, one-shot offsets and schedules of shutdowns, restores, failures (also while already down) and work orders; for every (device, part) visit the operational time between acceptance and release is compared with == to the cycle time in effect at acceptance; sources and sinks likewise; overdue parts are detected at every clock advance.',
  level_note='Down time is integrated by the harness from is_operational() sampled after every event (not from the library callbacks); cycle time in effect is read in a receive callback registered last; offsets are tracked from the ops issued.',
  rule=FLOOR_RULE + 'c06 profile (failure-while-down bias 0.3). Non-trivial as C02; distinct = dispatch digest.',
  reach={'cycle_spanned_downtime': 100, 'cycle_ended_by_failure': 50},
  faults=('fail', 'shutdown', 'restore', 'wo', 'offset', 'ct')),
 'C07': dict(),
 'C08': dict(
  level_text='Seeded search over routing-heavy models (fan-out/fan-in, complementary gate sets, groups shared by several paths, back-to-back, re-entrant and nested group paths, input blocks, batches, congestion): after every event each part\'s routing history must be a walk in the route graph derived from the spec with a stack discipline for group paths, the holders observed by the census must equal the history filtered to holding devices, gates must have accepted what passed them, blocked inputs gain nothing, and sinks collect in arrival order.',
  level_note='Route graph comes from the spec and from the set_upstream calls the harness issued, never from the objects. Idle-longest (C08.f): before a hand-over with a choice, and after every dispatch, forked what-if probes establish which parallel single-slot candidates (connected directly or through pass-through controllers) would have accepted the part; a violation needs a candidate idle longer than the taker under both readings of "idle".',
  rule=FLOOR_RULE + 'half of the runs use the c08 profile (gates, groups, nesting, set_upstream rewiring incl. to no upstream at all), half the c08f profile (parallel single-slot devices, a third of them behind a pass-through gate or plain PartFlowController). Non-trivial as C02; distinct = dispatch digest.',
  reach={'group_exits': 500, 'nested_group_entries': 20, 'handovers_with_choice_probed': 1000, 'choice_with_distinct_idle_times': 500,
         'choice_through_pass_through_controller': 500, 'routes_checked_after_rewire': 200},
  faults=('fail', 'shutdown', 'block', 'wake')),
 'C09': dict(
  level_text='Every op of a generated history (add/remove capacity incl. zero, negative, unknown names; single/multi reserve with zero, negative and unknown entries, with a request dict the caller hands over again or overwrites afterwards; full, partial, over-, negative and unknown-key release; repeated release; merge) is executed on the real ResourceManager and compared with a two-dict reference model after each op; erroneous calls are the injected faults: an op that raises must leave all observable state unchanged. Plus a complete sweep of all sequences up to length 3 (quick) / 4 (thorough) over a 17-op alphabet.',
  level_note='The property has no clock in it; it is decided as a history property op-by-op against an executable model (reference-model idiom). Trusts the model in simv/poolsim.py.',
  rule='poolsim: random histories of 3-40 ops over 3 resource names (+1 never-created) and <= 4 live reservations; systematic family over 17 ops. Non-trivial = >= 2 ops with >= 1 granted reservation or raised error; distinct = digest of the op list.',
  assumptions=['amounts are dyadic', 'a zero-amount release of a name that is not held may either be ignored or rejected, but must not half-apply'],
  real_vs_stub={'real': ['ResourceManager', 'ReservedResources', 'System/Environment (initialised, ticks run the scheduled checks)'], 'stub': []},
  reach={'negative_request': 100, 'invalid_release': 100, 'merge': 100, 'partial_release': 100, 'repeated_release': 50, 'multi_partial_fit_refused': 50,
         'request_object_reused': 500, 'request_object_overwritten': 500}),
 'C10': dict(
  level_text='Registrations, direct reservations, releases and capacity changes are injected as events at generated times/priorities (piled on few instants half of the time) on a real Environment; at every availability-check event an executable scan model (registration order, feasibility re-evaluated after every callback, callbacks that reserve / do nothing / register again) predicts exactly which callbacks run; at every clock advance no feasible request may still be waiting. 12% of the runs use decimal amounts (not exactly representable): where rounding decides whether a request fits, the model makes no prediction and the manager\'s own direct reserve_resources (asked in a forked child) is the arbiter - a request called back must be reservable inside its callback, a request left waiting must not be reservable directly.',
  level_note='Pool usage/capacity are read through the public getters at the start of each check event.',
  rule='poolsim timed: 3-40 ops over 3 resources. Non-trivial = >= 1 callback invoked; distinct = digest of the callback log.',
  real_vs_stub={'real': ['ResourceManager', 'Environment', 'System'], 'stub': ['request callbacks (harness)', 'tie-break weights']},
  reach={'multi_callback_scan': 100, 'quiescent_with_waiters': 100, 'release_inside_callback': 100,
         'scan_with_rounding_dependent_fit': 50, 'rounding_dependent_fit_probed': 50}),
 'C11': dict(
  level_text='Seeded search over models in which several processors (also inside shared groups) compete for 1-2 pools under capacity schedules through zero, failures, work orders and blocks; holdings of every processor and usage of every pool are compared after every event; idle operational processors must hold nothing at every clock advance.',
  level_note='Holdings are read from the processor\'s ReservedResources object (private reference, public reserved_resources view).',
  rule=FLOOR_RULE + 'c11 profile (pools always present). Non-trivial as C02; distinct = dispatch digest.',
  reach={'kept_through_shutdown': 20, 'failure_while_holding': 20},
  faults=('fail', 'shutdown', 'addres', 'wo', 'block')),
 'C12': dict(
  level_text='A real Maintainer is driven by generated request streams (duplicates, bursts in one instant, needed capacity 0 and above total, durations incl. 0 and changing, requests issued from inside start/end hooks, spurious try_working_requests) in lockstep with a reference maintainer (queue, active set, utilisation): return values, selected orders, capacity, queue order, durations, hook counts, cost and records are compared after every event; at every clock advance no startable order may wait.',
  level_note='Targets are harness Maintainables (and a real PartProcessor subclass in 30% of runs); queue/active lists are compared through the private lists as well as through the public records.',
  rule='maintsim: capacity in {0, 1/2, 1, 2, 3, inf}, 1-4 targets x 3 tags, 2-40 requests. Non-trivial = >= 1 order started; distinct = dispatch digest.',
  real_vs_stub={'real': ['Maintainer', 'Environment', 'System', 'PartProcessor (as target, 30% of runs)'], 'stub': ['Maintainable targets', 'tie-break weights']},
  reach={'request_from_hook': 100, 'need_above_total': 50, 'zero_duration_order': 100, 'quiescent_with_queue': 100}),
 'C13': dict(
  level_text='Seeded search over fault-heavy schedules (failures, shutdowns, restores, work orders on machines that are idle, processing, holding a finished part or already down, several at one instant): uptime and utilization are compared with == against integrals the harness keeps from is_operational() and the input slot sampled after every event; slots may not change while down; failures must lose exactly the part in process, log it and report it once to each shutdown callback in registration order; redundant calls are no-ops; default work orders keep the target down for exactly their duration.',
  level_note='Operational state is sampled after every event; failure events are recognised by (EventType.FAIL, asset id).',
  rule=FLOOR_RULE + 'c13 profile (failure-while-down bias 0.3, 2 callbacks of each kind per processor). Non-trivial as C02; distinct = dispatch digest.',
  reach={'failure_with_part': 100, 'failure_while_down': 50, 'failure_with_finished_part': 20, 'redundant_shutdown': 50, 'redundant_restore': 50},
  faults=('fail', 'shutdown', 'restore', 'wo')),
 'C14': dict(
  level_text='Twin runs: (a) the same model and seed twice and under different asset-id offsets, with the real seeded global generator or an adversary producing many exact weight ties; (b) simulate(a+b) against simulate(a);simulate(b) for grid split points with tie-breaks fixed as a function of event content; (c) simulate_multiple_times for max_processes in {1,2,3,n,None} on a simulated process pool (virtual workers with private process globals, seeded task placement, pickle boundary) against max_processes=0, plus the real process pool as a control; half of these models carry a maintainer with work orders that take time, scheduled failures, a shift scheduler and a periodic sensor, so that results cross the pickle boundary with orders in progress, paused events and pending samples. Id-normalised recorded data, counters, clock and pending queue must be equal.',
  level_note='The real pool\'s scheduling is not controlled; SimPool replaces it for the search (stub), the real pool is a control whose outcome must not depend on scheduling.',
  rule='lifesim: 3 of 4 runs are twin pairs on floorsim c14 models (merge topologies, callbacks drawing from random), 1 of 4 is a simulate_multiple_times case (1 in 200 with the real pool). Non-trivial = >= 10 dispatches compared; distinct = digest of the recorded data.',
  real_vs_stub={'real': ['all of simprocesd.model', 'pickle', 'concurrent.futures.ProcessPoolExecutor (control runs)'], 'stub': ['SimPool (simulated process pool)', 'content-hash tie-break weights for split runs', 'callbacks']},
  reach={'offset': 50, 'repeat': 20, 'split': 50, 'worker_reused': 20, 'result_with_work_order_in_progress': 50,
         'result_with_paused_events': 20}),
 'C15': dict(
  level_text='Seeded search; after every event the last recorded buffer level and resource usage/capacity are compared with the live objects, every new record must be stamped with the current time, received/produced records must equal what harness callbacks saw (id, quality, value) at that moment, record counts must equal occurrence counts (parts, failures, work orders, and the state changes of action schedulers present in 40% of the models), and in a quarter of the runs the exported trace file is read back and compared entry by entry with the observed dispatch sequence.',
  level_note='HOME points at a per-process scratch directory for the trace export; occurrence counts come from harness callbacks and from executed event types.',
  rule=FLOOR_RULE + 'c15 profile (trace=True in 25% of runs). Non-trivial as C02; distinct = dispatch digest.',
  reach={'traces_compared': 100, 'schedule_records_compared': 1000},
  faults=('fail', 'addres', 'wo')),
 'C16': dict(
  level_text='Seeded search; after every event value == initial + sum of history deltas for every registered asset and every part inside the line, history entries are stamped and totalled consistently, source cost / sink revenue / maintainer cost identities hold against values the harness read at hand-over, batches are worth the sum of their parts, net value is the sum over registered assets (assets are also created while the simulation runs, some of them with a name another asset already has).',
  level_note='Part values at hand-over are read in receive callbacks registered last.',
  rule=FLOOR_RULE + 'c16 profile. Non-trivial as C02; distinct = dispatch digest.',
  reach={'duplicate_asset_name': 100},
  faults=('fail', 'wo')),
 'C17': dict(
  level_text='Seeded search with batch sources (singles, batches of 1-5, empty batches) and batchers of size None,1,2,3,4: per batcher the concatenated sequence of parts leaving equals the sequence arriving, emitted batches have exactly n parts, input is accepted only with nothing left to unpack and nothing waiting, sinks and buffers count every part, batch routing-history updates reach every contained part.',
  level_note='Leaf lists are snapshotted in receive callbacks (batch part lists are mutated by unpacking).',
  rule=FLOOR_RULE + 'c17 profile. Non-trivial as C02; distinct = dispatch digest.',
  reach={'batch_accepted': 500, 'empty_batch_at_batcher': 10, 'indivisible_batch': 50}),
 'C18': dict(
  level_text='Timetables of 1-6 states (repeated states, zero and fractional durations), cyclical / not / default, 0-4 objects with default or override actions, register/unregister before the run and from events at priorities around the scheduler\'s own: schedule_update records and current_state are compared with a timetable evaluated by left-to-right addition, the action log with a lockstep registry model (one call per registered object, registration order, right arguments).',
  level_note='Trusts the independent timetable evaluation in simv/schedsim.py.',
  rule='schedsim: 1-2 schedulers per run, horizons 3-60. Non-trivial = >= 5 dispatches; distinct = dispatch digest.',
  real_vs_stub={'real': ['ActionScheduler', 'Environment', 'System'], 'stub': ['actions (harness)', 'registered objects']},
  reach={'register_during_run': 200, 'unregister_during_run': 200, 'noncyclical_reached_end': 100}),
 'C19': dict(
  level_text='Periodic sensors (dyadic and non-dyadic intervals, 1-3 probes incl. a mutable list, capacities 1..inf) and output-part sensors (sensing interval 0-3) on a processor in a line with failures and shutdowns, 1-3 callbacks, 0-2 CMS with add_sensor called once or twice, a quarter of the sensors constructed from inside an event or between two simulate() calls: sampling instants, stored copies, callback order/arguments, trimming and alignment of all series, measured part indices and CMS deliveries are compared with an independently computed schedule and with values a harness callback read at the same dispatch.',
  level_note='Trusts the independent schedule computation in simv/schedsim.py.',
  rule='schedsim sensors: 1-3 sensors per run. Non-trivial = >= 5 dispatches; distinct = dispatch digest.',
  real_vs_stub={'real': ['Sensor, PeriodicSensor, OutputPartSensor, Probe, AttributeProbe, Cms, PartProcessor line'], 'stub': ['probed target object', 'on-sense callbacks', 'Cms subclass that logs']},
  reach={'trimmed': 200, 'inplace_mutation': 200, 'cms_added_twice': 100, 'sensor_created_late': 500, 'manual_sense': 200}),
 'C20': dict(
  level_text='Lifecycle programs (system creations, constructions of every asset class before, between and after simulate calls, simulate on active and replaced systems, find_assets queries) with registration / initialise-once / active-system / look-up oracles, and late-created-asset scenarios (each class constructed from inside an event at time tau) compared with a twin created before the start (time-shifted for autonomous assets, input blocked until tau for consuming chains).',
  level_note='Asset.initialize is wrapped to count calls; lists returned by find_assets are modified by the harness afterwards (they belong to the caller).',
  rule='lifesim: even indices are lifecycle programs (4-25 steps), odd indices late-creation twins over 11 scenarios. Non-trivial = a twin scenario or >= 2 assets created; distinct = digest of the program / observations.',
  real_vs_stub={'real': ['System, Asset and every asset class of simprocesd.model'], 'stub': ['gate predicate', 'Maintainable target', 'probe target']},
  reach={'created_after_start': 200, 'nonempty_query': 200, 'system_subclass': 200, 'created_inside_initialize': 100}),
}
