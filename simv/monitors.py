"""Per-property oracles for floorsim.  Each monitor checks only the clauses of
its own property; all are incremental (work per dispatch is O(#devices +
#parts currently inside devices))."""
import math
import os

from . import core
from .core import HarnessError
from .floor import Monitor, leaves_of, ordinal_of, pred_accepts, HOLDER_KINDS


class Census(Monitor):
    """Shared observation: where every leaf part is after each dispatch.

    Maintains on the floor object:
      f.where      leaf id -> [(holder, slot)]  (inside devices, sinks excluded)
      f.delivered  leaf id -> [sink, ...]
      f.lost       leaf id -> [proc, ...]        (reported to shutdown callbacks)
      f.hseq       leaf id -> [holder names in order of visits]
      f.moves      [(leaf, from_holder|None, to_holder|('sink',s)|('lost',p))] this step
    """

    def start(self, f):
        f.where = {}
        f.delivered = {}
        f.lost = {}
        f.hseq = {}
        f.moves = []
        f.leaf_by_id = {}
        f.sink_seen = {s: 0 for s in f.sinks}
        f.lost_seen = 0
        f.leaves_seen = 0
        f.new_deliveries = []
        f.new_lost = []
        f.census_step = -1

    def after_step(self, f, e):
        self.observe(f)

    def after_simulate(self, f):
        self.observe(f)

    def observe(self, f):
        lib = f.lib
        prev = f.where
        where = f.census()
        f.moves = []
        f.new_deliveries = []
        f.new_lost = []
        while f.leaves_seen < len(f.leaves):
            lf = f.leaves[f.leaves_seen]
            f.leaf_by_id[id(lf)] = lf
            f.leaves_seen += 1
        for s in f.sinks:
            cp = f.dev[s].collected_parts
            k = f.sink_seen[s]
            while k < len(cp):
                item = cp[k]
                k += 1
                f.new_deliveries.append((s, item))
                for lf in leaves_of(item, lib):
                    f.delivered.setdefault(id(lf), []).append(s)
                    f.hseq.setdefault(id(lf), []).append(s)
                    f.moves.append((lf, (prev.get(id(lf)) or [(None, None)])[0][0], ('sink', s)))
            f.sink_seen[s] = k
        while f.lost_seen < len(f.lost_log):
            proc, item, t = f.lost_log[f.lost_seen]
            f.lost_seen += 1
            f.new_lost.append((proc, item))
            for lf in leaves_of(item, lib):
                f.lost.setdefault(id(lf), []).append(proc)
                f.moves.append((lf, (prev.get(id(lf)) or [(None, None)])[0][0], ('lost', proc)))
        for lid, places in where.items():
            h = places[0][0]
            ph = prev.get(lid)
            if ph is None or ph[0][0] != h:
                f.hseq.setdefault(lid, []).append(h)
                f.moves.append((f.leaf_by_id.get(lid), ph[0][0] if ph else None, h))
        f.prev_where = prev
        f.where = where
        f.census_step = f.step_no


# ===========================================================================
# C02 conservation
# ===========================================================================
class C02Monitor(Monitor):
    def start(self, f):
        self.active = set()

    def after_step(self, f, e):
        self.check(f)

    def after_simulate(self, f):
        self.check(f)

    def check(self, f):
        lib = f.lib
        where, prev = f.where, getattr(f, 'prev_where', {})
        # (b) nothing invented
        for lid in where:
            if lid not in f.leaf_by_id:
                f.fail('C02.b', f'a part that no source generated is held at {where[lid]}', 'invented')
        # (a) exactly one place
        cand = set(where) | set(prev)
        for s, item in f.new_deliveries:
            cand.update(id(x) for x in leaves_of(item, lib))
        for p, item in f.new_lost:
            cand.update(id(x) for x in leaves_of(item, lib))
        self.ev(f, 'C02.a', len(cand))
        for lid in cand:
            places = [f'{h}.{s}' for h, s in where.get(lid, [])] \
                + [f'sink:{s}' for s in f.delivered.get(lid, [])] \
                + [f'lost:{p}' for p in f.lost.get(lid, [])]
            if len(places) != 1:
                lf = f.leaf_by_id.get(lid)
                nm = lf.name if lf is not None else '?'
                if not places:
                    was = prev.get(lid)
                    kind = 'dropped'
                    extra = {}
                    ev = f.cur_event
                    if ev is not None and getattr(ev.action, '__name__', '') == '_fail':
                        kind = 'dropped_by_failure'
                        proc = getattr(ev.action, '__self__', None)
                        extra['proc_was_down'] = bool(getattr(f, 'down_before_step', {}).get(
                            f.name_of.get(id(proc))))
                    f.fail('C02.a', f'part {nm} vanished: it was at {was} and is now in no device, '
                           f'no sink and was not reported lost', kind, **extra)
                f.fail('C02.a', f'part {nm} is in {len(places)} places: {places}', 'duplicated')
        # (c) single-slot devices
        for n in f.holders:
            k, o = f.kind[n], f.dev[n]
            if k in ('handler', 'proc', 'sink') and o._part is not None and o._output is not None:
                f.fail('C02.c', f'single-slot device {n} holds two parts '
                       f'({o._part.name} and {o._output.name})', 'twoparts')
            if k == 'source' and o._part is not None:
                f.fail('C02.c', f'source {n} holds a part in its input slot', 'srcpart')
        self.ev(f, 'C02.c', len(f.holders))
        # (d) budgets
        for n in f.sources:
            o = f.dev[n]
            gen = o._part_generator._generated_part_counter
            left = gen - (1 if o._output is not None else 0)
            if o.produced_parts != left:
                f.fail('C02.d', f'source {n} reports {o.produced_parts} supplied parts but {left} '
                       f'parts have left it', 'count')
            if o.produced_parts > f.budget[n]:
                f.fail('C02.d', f'source {n} supplied {o.produced_parts} parts, budget is '
                       f'{f.budget[n]}', 'budget')
        # (e) totals
        inside = len(where)
        delivered = sum(len(v) for v in f.delivered.values())
        lost = sum(len(v) for v in f.lost.values())
        if len(f.leaves) != inside + delivered + lost:
            f.fail('C02.e', f'generated {len(f.leaves)} != inside {inside} + delivered {delivered} '
                   f'+ lost {lost}', 'total')
        rc = sum(f.dev[s].received_parts_count for s in f.sinks)
        if rc != delivered:
            f.fail('C02.e', f'sinks report {rc} received parts, {delivered} were delivered', 'sinkcount')
        self.ev(f, 'C02.e')


class DownTracker(Monitor):
    """Samples is_operational() after every dispatch (independent of the
    library's callbacks)."""

    def start(self, f):
        f.down_before_step = {}
        f.down = {n: False for n in f.procs}

    def before_step(self, f):
        f.down_before_step = dict(f.down)

    def after_step(self, f, e):
        for n in f.procs:
            f.down[n] = not f.dev[n].is_operational()


# ===========================================================================
# C05 buffer contract
# ===========================================================================
class C05Monitor(Monitor):
    def start(self, f):
        self.prev = {b: [] for b in f.buffers}
        self.arrival = {}

    def after_step(self, f, e):
        lib, now = f.lib, f.env.now
        for b in f.buffers:
            o = f.dev[b]
            stored = o.stored_parts
            n_leaves = sum(len(leaves_of(x, lib)) for x in stored)
            if o.level() != n_leaves:
                f.fail('C05.a', f'buffer {b} reports level {o.level()} but stores {n_leaves} parts', 'level')
            cap = f.dspec[b].get('cap')
            cap = float('inf') if cap is None else cap       # as configured (2.5 means: never more than 2 parts)
            if n_leaves > o.capacity or n_leaves > cap:
                f.fail('C05.b', f'buffer {b} stores {n_leaves} parts, configured capacity {cap} (reports {o.capacity})',
                       'capacity')
            before = self.prev[b]
            ids_after = [id(x) for x in stored]
            ids_before = [id(x) for x in before]
            # departures are a prefix of what was stored; the rest keeps its order and arrivals are appended.  (On a
            # re-entrant route a part can leave and come back within one dispatch: it is then an arrival at the back.)
            r = next((r for r in range(len(ids_before) + 1)
                      if ids_after[:len(ids_before) - r] == ids_before[r:]), None)
            if r is None:
                f.fail('C05.c', f'buffer {b}: content {[x.name for x in stored]} is not '
                       f'{[x.name for x in before]} minus a prefix plus arrivals', 'fifo')
            still = ids_before[r:]
            arrivals = stored[len(still):]
            departed = [(x, self.arrival.pop((b, id(x)))) for x in before[:r]]
            for x in arrivals:
                self.arrival[(b, id(x))] = now
            for x, t_in in departed:
                ulp = math.ulp(now)
                if o.minimum_delay - (now - t_in) > ulp:
                    f.fail('C05.d', f'buffer {b}: part {x.name} arrived at {t_in} and left at {now}, '
                           f'minimum delay is {o.minimum_delay}', 'delay')
                f.bump(f.stats['reach'], 'buffer_departures')
            if arrivals and n_leaves == o.capacity:
                f.bump(f.stats['reach'], 'buffer_full')
            self.prev[b] = stored
        self.ev(f, 'C05', len(f.buffers))




# ===========================================================================
# C03 no lost wake-up (forked what-if probe at every clock advance)
# ===========================================================================
def ready_parts(f):
    """[(holder name, item)] parts that are ready to leave an operational holder."""
    out = []
    env = f.env
    for n in f.holders:
        k, o = f.kind[n], f.dev[n]
        if k == 'sink' or not o.is_operational():
            continue
        if k == 'source':
            if o._output is not None and o.remaining_parts >= 1:
                out.append((n, o._output))
        elif k == 'buffer':
            if o._buffer:
                t_in, item = o._buffer[0]
                if o.minimum_delay - (env.now - t_in) <= math.ulp(env.now):
                    out.append((n, item))
        elif o._output is not None:
            out.append((n, o._output))
    return out


def probe_offers(f, ready):
    """In a forked child, offer every ready part to its holder's sorted
    downstream list with the real give_part.  Returns the first acceptance
    (holder, part name, taker name) or None.  The parent is untouched."""
    r, w = os.pipe()
    pid = os.fork()
    if pid == 0:
        code = 0
        try:
            os.close(r)
            msg = b''
            try:
                for n, item in ready:
                    o = f.dev[n]
                    for dwn in o.get_sorted_downstream_list():
                        if dwn.give_part(item):
                            msg = f'{n}|{item.name}|{getattr(dwn, "name", "?")}'.encode()
                            break
                    if msg:
                        break
            except BaseException as ex:  # library raised inside the what-if: report, do not judge
                msg = f'!EXC|{type(ex).__name__}: {ex}'.encode()
            os.write(w, msg or b'-')
        finally:
            os._exit(code)
    os.close(w)
    data = b''
    while True:
        chunk = os.read(r, 4096)
        if not chunk:
            break
        data += chunk
    os.close(r)
    os.waitpid(pid, 0)
    if not data:
        raise HarnessError('probe child died without an answer')
    s = data.decode()
    if s == '-':
        return None
    if s.startswith('!EXC|'):
        return ('!EXC', s[5:], '')
    return tuple(s.split('|'))


class C03Monitor(Monitor):
    def quiescent(self, f):
        ready = ready_parts(f)
        self.ev(f, 'C03.a', len(ready))
        if not ready:
            return
        f.bump(f.stats['reach'], 'probes')
        f.bump(f.stats['reach'], 'blocked_parts_confirmed', len(ready))
        res = probe_offers(f, ready)
        if res is None:
            return
        if res[0] == '!EXC':
            f.fail('C03.b', f'offering a ready part raised {res[1]}', 'probe_exc')
        holder, part, taker = res
        f.fail('C03.a', f'lost wake-up: at t={f.env.now}, with no further event at this instant, {holder} '
               f'still holds ready part {part} although downstream {taker} accepts it when offered',
               'lost_wakeup', holder_kind=f.kind[holder])


# ===========================================================================
# C06 cycle times across interruptions
# ===========================================================================
class Integrator(Monitor):
    """Integrates, per processor, down time / up time / busy time from the
    operational flag and the input slot sampled after every dispatch."""

    def start(self, f):
        f.down_total = {n: 0 for n in f.holders}
        f.up_total = {n: 0 for n in f.procs}
        f.busy_total = {n: 0 for n in f.procs}
        f.busy = {n: False for n in f.procs}
        self.last = 0

    def after_step(self, f, e):
        now = f.env.now
        dt = now - self.last
        self.last = now
        if dt:
            for n in f.procs:
                if f.down_before_step.get(n):
                    f.down_total[n] += dt
                else:
                    f.up_total[n] += dt
                    if f.busy[n]:
                        f.busy_total[n] += dt
        for n in f.procs:
            f.busy[n] = f.dev[n]._part is not None

    def after_simulate(self, f):
        now = f.env.now
        dt = now - self.last
        self.last = now
        if dt:
            for n in f.procs:
                if f.down.get(n):
                    f.down_total[n] += dt
                else:
                    f.up_total[n] += dt
                    if f.busy[n]:
                        f.busy_total[n] += dt


class C06Monitor(Monitor):
    def start(self, f):
        self.cur = {}
        self.recv_seen = 0
        self.fin_seen = 0
        self.timed = [n for n in f.holders if f.kind[n] in ('handler', 'proc', 'sink')]
        self.src = {}
        for n in f.sources:
            # the first cycle starts at initialisation and consumes the offsets requested before the run
            self.src[n] = {'t0': 0, 'eff': max(0, f.dspec[n]['ct'] + f.pending_offset[n]), 'gen': 0, 'left': 0}
            f.pending_offset[n] = 0
        self.sink_prev = {}

    def after_step(self, f, e):
        now = f.env.now
        # ---- new acceptances
        while self.recv_seen < len(f.recv_log):
            n, item, t, eff = f.recv_log[self.recv_seen][:4]
            self.recv_seen += 1
            if f.kind[n] not in ('handler', 'proc', 'sink'):
                continue
            c = self.cur.get(n)
            if c is not None and f.kind[n] == 'sink' and c['eff'] == 0 and c['t'] == t \
                    and f.dev[n]._part is not c['item']:
                c = None    # a zero-cycle sink finished the previous part within this same dispatch
            if c is not None:
                f.fail('C06.c', f'{n} accepted {item.name} at {t} while {c["item"].name} is still in process',
                       'two_in_process')
            self.cur[n] = {'item': item, 't': t, 'eff': eff, 'down0': f.down_total[n], 'fin': 0}
            if f.kind[n] == 'sink':
                p = self.sink_prev.get(n)
                if p is not None and t - p[0] < p[1]:
                    f.fail('C06.e', f'sink {n} accepted a part at {t}, only {t - p[0]} after the previous one '
                           f'(cycle time {p[1]})', 'sink_early')
                self.sink_prev[n] = (t, eff)
                self.ev(f, 'C06.e')
        # ---- finish callbacks of processors
        while self.fin_seen < len(f.finish_log):
            n, item, t = f.finish_log[self.fin_seen][:3]
            self.fin_seen += 1
            c = self.cur.get(n)
            if c is None or c['item'] is not item:
                f.fail('C06.b', f'{n} finished {item.name} at {t} which is not the part in process', 'stale_finish')
            c['fin'] += 1
            if c['fin'] > 1:
                f.fail('C06.b', f'{n} finished {item.name} twice', 'twice')
        # ---- end of cycles
        for n in self.timed:
            c = self.cur.get(n)
            if c is None:
                continue
            o = f.dev[n]
            if o._part is c['item']:
                continue
            finished = (o._output is c['item']) or f.kind[n] == 'sink' or c['fin'] > 0
            if finished:
                worked = (now - c['t']) - (f.down_total[n] - c['down0'])
                self.ev(f, 'C06.a')
                if worked != c['eff']:
                    kind = 'early' if worked < c['eff'] else 'late'
                    f.fail('C06.a', f'{n} released {c["item"].name} after {worked} of operational time '
                           f'(accepted {c["t"]}, now {now}, down {f.down_total[n] - c["down0"]}); '
                           f'cycle time in effect was {c["eff"]}', kind)
                if f.down_total[n] - c['down0'] > 0:
                    f.bump(f.stats['reach'], 'cycle_spanned_downtime')
            else:
                f.bump(f.stats['reach'], 'cycle_ended_by_failure')
            self.cur[n] = None
        # ---- sources
        self.check_sources(f)

    def before_step(self, f):
        if f.step_no == 1:
            # parts generated during initialisation (zero cycle time)
            self.check_sources(f)

    def check_sources(self, f):
        now = f.env.now
        for n in f.sources:
            o, st = f.dev[n], self.src[n]
            # a part that left in this step starts a new cycle first ...
            if o.produced_parts > st['left']:
                if o.produced_parts != st['left'] + 1:
                    f.fail('C06.d', f'source {n} supplied {o.produced_parts - st["left"]} parts in one step', 'multi')
                st['left'] = o.produced_parts
                eff = max(0, o.cycle_time + f.pending_offset[n])
                f.pending_offset[n] = 0
                st['t0'], st['eff'] = now, eff
            # ... then at most one part is generated
            gen = o._part_generator._generated_part_counter
            if gen > st['gen']:
                if gen != st['gen'] + 1:
                    f.fail('C06.d', f'source {n} generated {gen - st["gen"]} parts in one step', 'multi')
                st['gen'] = gen
                self.ev(f, 'C06.d')
                if now - st['t0'] != st['eff']:
                    f.fail('C06.d', f'source {n} produced part #{gen} at {now}, {now - st["t0"]} after its cycle '
                           f'started at {st["t0"]}; cycle time in effect was {st["eff"]}', 'source_cycle')

    def quiescent(self, f):
        now = f.env.now
        for n in f.sources:
            o, st = f.dev[n], self.src[n]
            if o._output is None and o._part_generator._generated_part_counter == st['gen'] and now - st['t0'] >= st['eff'] \
                    and st['left'] == o.produced_parts and f.step_no > 0:
                f.fail('C06.d', f'source {n} has produced nothing by {now} although its cycle started at {st["t0"]} with '
                       f'cycle time {st["eff"]}', 'source_late')
        for n in self.timed:
            c = self.cur.get(n)
            if c is None or not f.dev[n].is_operational():
                continue
            if f.dev[n]._part is not c['item']:
                continue
            worked = (now - c['t']) - (f.down_total[n] - c['down0'])
            if worked >= c['eff']:
                f.fail('C06.a', f'{n} still holds {c["item"].name} in process at {now} after {worked} of '
                       f'operational time; cycle time in effect was {c["eff"]}', 'late')


# ===========================================================================
# C13 shutdown / failure / restore / accounting
# ===========================================================================
class C13Monitor(Monitor):
    def start(self, f):
        self.slots_before = {}
        self.shut_seen = 0
        self.rest_seen = 0
        self.df_seen = {n: 0 for n in f.procs}
        self.wo_only = set()
        touched = {o.get('dev') for o in f.spec.get('ops', []) + f.spec.get('between', [])
                   if o['op'] in ('fail', 'shutdown', 'restore')}
        self.wo_only = {n for n in f.procs if n not in touched}
        self.fail_type = f.lib.EventType.FAIL
        self.restored_holding = {}
        self.fin2_seen = 0

    def before_step(self, f):
        self.slots_before = {n: (f.dev[n]._part, f.dev[n]._output) for n in f.procs}

    def after_step(self, f, e):
        now = f.env.now
        env = f.env
        new_shut = f.shutdown_log[self.shut_seen:]
        new_rest = f.restore_log[self.rest_seen:]
        self.shut_seen = len(f.shutdown_log)
        self.rest_seen = len(f.restore_log)
        failing = None
        if e is not None and e.event_type == self.fail_type and not e.cancelled:
            for n in f.procs:
                if f.dev[n].id == e.asset_id:
                    failing = n
        for n in f.procs:
            o = f.dev[n]
            was_down = f.down_before_step.get(n, False)
            is_down = not o.is_operational()
            pb, ob = self.slots_before[n]
            shut = [x for x in new_shut if x[0] == n]
            rest = [x for x in new_rest if x[0] == n]
            # (a) accounting
            if o.uptime != f.up_total[n]:
                f.fail('C13.a', f'{n}.uptime is {o.uptime}, it has been operational for {f.up_total[n]}', 'uptime')
            if o.utilization_time != f.busy_total[n]:
                f.fail('C13.a', f'{n}.utilization_time is {o.utilization_time}, it has been processing for '
                       f'{f.busy_total[n]}', 'utilization')
            # (b) no movement while down
            if was_down and is_down and failing != n:
                if o._part is not pb or o._output is not ob:
                    f.fail('C13.b', f'{n} is shut down but its slots changed: part {getattr(pb, "name", None)}->'
                           f'{getattr(o._part, "name", None)}, output {getattr(ob, "name", None)}->'
                           f'{getattr(o._output, "name", None)}', 'moved_while_down')
            if was_down and o._part is not pb and pb is None:
                f.fail('C13.b', f'{n} accepted {o._part.name} while shut down', 'accepted_while_down')
            # (c) failure
            if failing == n:
                f.bump(f.stats['reach'], 'failure_with_part' if pb is not None else 'failure_idle')
                if was_down:
                    f.bump(f.stats['reach'], 'failure_while_down')
                if ob is not None:
                    f.bump(f.stats['reach'], 'failure_with_finished_part')
                if not is_down:
                    f.fail('C13.c', f'{n} is operational right after its failure event', 'not_down')
                if o._part is not None:
                    f.fail('C13.c', f'{n} still holds {o._part.name} in process after failing', 'kept_part')
                if o._output is not ob:
                    f.fail('C13.c', f'failure of {n} changed its finished part', 'output_changed')
                recs = env.simulation_data.get('device_failure', {}).get(n, [])
                newr = recs[self.df_seen[n]:]
                want = (now, pb.id if pb is not None else None)
                if list(newr) != [want]:
                    f.fail('C13.c', f'failure of {n} at {now} logged {newr}, expected [{want}]', 'failure_log')
                exp = [(n, 0, True, pb), (n, 1, True, pb)]
                got = [(x[0], x[1], x[2], x[3]) for x in shut]
                if pb is not None or not was_down:
                    if got != exp:
                        f.fail('C13.c' if [g[1] for g in got] == [0, 1] or len(got) != 2 else 'C13.e',
                               f'failure of {n} with part {getattr(pb, "name", None)} in process: shutdown '
                               f'callbacks received {[(g[1], g[2], getattr(g[3], "name", None)) for g in got]}',
                               'failure_callbacks', was_down=was_down)
                elif got not in ([], exp):
                    f.fail('C13.c', f'failure of idle, already shut down {n}: shutdown callbacks received {got}',
                           'failure_callbacks_idle')
            else:
                # (d)/(e) transitions and callbacks
                if not was_down and is_down:
                    got = [(x[1], x[2], x[3]) for x in shut]
                    if got != [(0, False, None), (1, False, None)]:
                        f.fail('C13.e', f'shutdown of {n}: callbacks received {got}', 'shutdown_callbacks')
                    f.bump(f.stats['reach'], 'shutdown_with_part' if pb is not None else 'shutdown_idle')
                elif shut:
                    f.fail('C13.d', f'{n} did not go down in this step but shutdown callbacks ran: '
                           f'{[(x[1], x[2]) for x in shut]}', 'spurious_shutdown_cb')
                if was_down and not is_down:
                    if [x[1] for x in rest] != [0, 1]:
                        f.fail('C13.e', f'restore of {n}: restored callbacks ran {[x[1] for x in rest]}',
                               'restore_callbacks')
                elif rest:
                    f.fail('C13.d', f'{n} was not restored in this step but restored callbacks ran', 'spurious_restore_cb')
            self.df_seen[n] = len(env.simulation_data.get('device_failure', {}).get(n, []))
            if was_down and not is_down and o._output is not None:
                self.restored_holding[n] = o._output
            elif o._output is None:
                self.restored_holding[n] = None
            # (d) redundant calls change nothing
            op = f.cur_op
            if op is not None and op.get('dev') == n:
                if op['op'] == 'shutdown' and was_down:
                    f.bump(f.stats['reach'], 'redundant_shutdown')
                    if not is_down or o._part is not pb or o._output is not ob or shut or rest:
                        f.fail('C13.d', f'shutdown() on already shut down {n} changed state', 'redundant_shutdown')
                if op['op'] == 'restore' and not was_down:
                    f.bump(f.stats['reach'], 'redundant_restore')
                    if is_down or o._part is not pb or o._output is not ob or shut or rest:
                        f.fail('C13.d', f'restore_functionality() on operational {n} changed state', 'redundant_restore')
            # (f) default work orders keep the target down for exactly their duration
            if n in self.wo_only and f.maint is not None:
                sd = env.simulation_data
                st = sum(1 for r in sd.get('start_work_order', {}).get(f.maint.name, []) if r[1] == n)
                fi = sum(1 for r in sd.get('finish_work_order', {}).get(f.maint.name, []) if r[1] == n)
                if (st - fi > 0) != is_down:
                    f.fail('C13.f', f'{n} has {st - fi} work orders in progress but is_operational() is '
                           f'{not is_down}', 'wo_down')
        # (e) finish-processing callbacks: each once per finished part, in registration order
        while self.fin2_seen < len(f.fin_order_log):
            n, n_first, part = f.fin_order_log[self.fin2_seen]
            k = self.fin2_seen
            self.fin2_seen += 1
            if n_first != k + 1 or f.finish_log[k][0] != n or f.finish_log[k][1] is not part:
                f.fail('C13.e', f'finish-processing callbacks of {n} did not run once each in registration order for '
                       f'{getattr(part, "name", part)}', 'finish_callbacks')
        if len(f.finish_log) != len(f.fin_order_log):
            f.fail('C13.e', f'finish-processing callbacks ran {len(f.finish_log)} / {len(f.fin_order_log)} times', 'finish_callbacks')
        self.ev(f, 'C13', len(f.procs))

    def quiescent(self, f):
        """(g) a finished part kept through a failure/shutdown leaves after restoration: once the machine is
        operational again and time is about to advance, no downstream may be willing to take it."""
        ready = []
        for n in f.procs:
            o = f.dev[n]
            if o._output is not None and o.is_operational() and self.restored_holding.get(n) is o._output:
                ready.append((n, o._output))
        self.ev(f, 'C13.g', len(ready))
        if not ready:
            return
        f.bump(f.stats['reach'], 'restored_with_finished_part_probes')
        res = probe_offers(f, ready)
        if res is None:
            return
        if res[0] == '!EXC':
            return
        holder, part, taker = res
        f.fail('C13.g', f'{holder} was restored holding finished part {part}; at t={f.env.now} time advances and the part '
               f'is still there although downstream {taker} accepts it when offered', 'finished_part_stuck')

    def after_simulate(self, f):
        for n in f.procs:
            o = f.dev[n]
            if o.uptime != f.up_total[n]:
                f.fail('C13.a', f'{n}.uptime is {o.uptime} at the end of the run, it has been operational for '
                       f'{f.up_total[n]}', 'uptime')
            if o.utilization_time != f.busy_total[n]:
                f.fail('C13.a', f'{n}.utilization_time is {o.utilization_time} at the end of the run, it has been '
                       f'processing for {f.busy_total[n]}', 'utilization')


# ===========================================================================
# C11 processors and their resources
# ===========================================================================
class C11Monitor(Monitor):
    def start(self, f):
        self.declared = {}
        for n in f.procs:
            r = f.dspec[n].get('res')
            if r:
                self.declared[n] = {k: v for k, v in r.items() if v > 0}
        self.fail_type = f.lib.EventType.FAIL

    def holdings(self, f, n):
        rr = f.dev[n]._reserved_resources
        return {} if rr is None else rr.reserved_resources

    def after_step(self, f, e):
        tot = {}
        for n, decl in self.declared.items():
            o = f.dev[n]
            h = self.holdings(f, n)
            if h and h != decl:
                f.fail('C11.a', f'{n} holds {h}, declared requirement is {decl}', 'wrong_amounts')
            if o._part is not None and decl and h != decl:
                f.fail('C11.a', f'{n} has {o._part.name} in process but holds {h} instead of {decl}',
                       'processing_without_resources')
            if h and o._part is not None and not o.is_operational():
                f.bump(f.stats['reach'], 'kept_through_shutdown')
            for k, v in h.items():
                tot[k] = tot.get(k, 0) + v
            if e is not None and e.event_type == self.fail_type and e.asset_id == o.id and not e.cancelled:
                f.bump(f.stats['reach'], 'failure_while_holding' if self.prev_h.get(n) else 'failure_not_holding')
                if h:
                    f.fail('C11.c', f'{n} still holds {h} after its failure', 'held_after_failure')
        for r in set(tot) | set(f.spec.get('resources', {})):
            u = f.rm.get_resource_usage(r)
            if u != tot.get(r, 0):
                f.fail('C11.b', f'usage of {r} is {u}, processors hold {tot.get(r, 0)} in total', 'usage')
            if u > f.rm.get_resource_capacity(r):
                f.bump(f.stats['reach'], 'usage_above_capacity')
        self.prev_h = {n: self.holdings(f, n) for n in self.declared}
        self.ev(f, 'C11', len(self.declared))

    prev_h = {}

    def quiescent(self, f):
        for n, decl in self.declared.items():
            o = f.dev[n]
            if o.is_operational() and o._part is None:
                h = self.holdings(f, n)
                if h:
                    f.fail('C11.d', f'idle operational processor {n} holds {h} when time advances from '
                           f'{f.env.now}', 'idle_holding')
        self.ev(f, 'C11.d')


# ===========================================================================
# C16 value accounting
# ===========================================================================
class C16Monitor(Monitor):
    def start(self, f):
        self.hist_seen = {}
        self.recv_seen = 0
        self.src_cost = {n: 0 for n in f.sources}
        self.sink_rev = {n: 0 for n in f.sinks}
        self.first_recv = set()
        self.maint_cost = 0
        self.wo_seen = 0
        self.initial = {}
        self.keep = []
        self.built_assets = list(f.system._assets)      # everything the builder constructed before the first run

    def check_asset(self, f, a, now, label):
        hist = a.value_history
        k = id(a)
        first_sight = k not in self.initial
        if first_sight:
            self.initial[k] = a._initial_value if hasattr(a, '_initial_value') else 0
            self.hist_seen[k] = [0, self.initial[k]]
            self.keep.append(a)
        seen, running = self.hist_seen[k]
        if len(hist) < seen:
            f.fail('C16.a', f'value history of {label} shrank', 'history_shrank')
        for ent in hist[seen:]:
            lab, t, delta, total = ent
            if delta == 0:
                f.fail('C16.b', f'{label}: zero change recorded in value history: {ent}', 'zero_delta')
            if t != now and not first_sight:     # (an asset first looked at now may carry older entries)
                f.fail('C16.b', f'{label}: value history entry {ent} stamped {t}, now is {now}', 'stamp')
            if t > now:
                f.fail('C16.b', f'{label}: value history entry {ent} is stamped in the future (now {now})', 'stamp')
            running += delta
            if total != running:
                f.fail('C16.b', f'{label}: value history entry {ent} has running total {total}, expected {running}',
                       'running_total')
        self.hist_seen[k] = [len(hist), running]
        if not isinstance(a, f.lib.Batch) and a.value != running:
            f.fail('C16.a', f'{label}: value {a.value} != initial {self.initial[k]} + history deltas = {running}',
                   'value_sum')

    def after_step(self, f, e):
        lib, now = f.lib, f.env.now
        # first receipt of an item = hand-over from its source; receipts by sinks = revenue
        while self.recv_seen < len(f.recv_log):
            n, item, t, eff, val = f.recv_log[self.recv_seen][:5]
            self.recv_seen += 1
            if id(item) in f.item_src and id(item) not in self.first_recv:
                self.first_recv.add(id(item))
                self.src_cost[f.item_src[id(item)]] += val
            if f.kind[n] == 'sink':
                self.sink_rev[n] += val
        for a in f.system._assets:
            if isinstance(a, lib.Asset):
                self.check_asset(f, a, now, a.name)
        for lid in f.where:
            lf = f.leaf_by_id.get(lid)
            if lf is not None:
                self.check_asset(f, lf, now, lf.name)
        for s, item in f.new_deliveries:
            for lf in leaves_of(item, lib):
                self.check_asset(f, lf, now, lf.name)
        for n in f.sources:
            o = f.dev[n]
            if o.cost_of_produced_parts != self.src_cost[n] or o.value != -self.src_cost[n]:
                f.fail('C16.c', f'source {n}: value {o.value}, cost_of_produced_parts {o.cost_of_produced_parts}, '
                       f'summed value of supplied parts at hand-over {self.src_cost[n]}', 'source_value')
        for n in f.sinks:
            o = f.dev[n]
            if o.value_of_received_parts != self.sink_rev[n] or o.value != self.sink_rev[n]:
                f.fail('C16.d', f'sink {n}: value {o.value}, value_of_received_parts {o.value_of_received_parts}, '
                       f'summed value of parts at receipt {self.sink_rev[n]}', 'sink_value')
        if f.maint is not None:
            recs = f.env.simulation_data.get('start_work_order', {}).get(f.maint.name, [])
            for r in recs[self.wo_seen:]:
                self.maint_cost += f.dspec[r[1]]['wo'][r[2]][2]
            self.wo_seen = len(recs)
            init = f.spec['maintainer'].get('value', 0)
            if f.maint.value != init - self.maint_cost:
                f.fail('C16.e', f'maintainer value {f.maint.value} != {init} - cost of started orders '
                       f'{self.maint_cost}', 'maintainer_value')
        for n in f.holders:
            for slot, item in f.slots(n):
                if isinstance(item, lib.Batch):
                    sv = sum(p.value for p in item.parts)
                    if item.value != sv:
                        f.fail('C16.f', f'batch {item.name} is worth {item.value}, its parts sum to {sv}', 'batch_value')
        net = f.system.get_net_value_of_assets()
        known = self.built_assets + f.late_assets
        tot = sum(a.value for a in known)
        if net != tot:
            f.fail('C16.g', f'net value {net} != sum over the {len(known)} registered assets {tot} '
                   f'({len(f.late_assets)} of them created during the run)', 'net')
        for a in f.late_assets:
            self.check_asset(f, a, now, a.name)
        self.ev(f, 'C16', len(f.system._assets))


# ===========================================================================
# C17 batching
# ===========================================================================
class C16Final(Monitor):
    def finish(self, f):
        known = list(f.system._assets)
        tot = sum(a.value for a in known)
        f.lib.System()        # another System takes over as the active one
        net = f.system.get_net_value_of_assets()
        if net != tot:
            f.fail('C16.g', f'after another System was created, the net value of the first one reads {net}; its assets sum '
                   f'to {tot}', 'net_of_replaced_system')


class C17Monitor(Monitor):
    def start(self, f):
        self.batchers = [n for n in f.holders if f.kind[n] == 'batcher']
        self.inseq = {n: [] for n in self.batchers}
        self.outseq = {n: [] for n in self.batchers}
        self.last_out = {n: None for n in self.batchers}
        self.recv_seen = 0
        self.before = {}
        self.sink_cnt = {n: 0 for n in f.sinks}
        self.sink_seen = {n: 0 for n in f.sinks}

    def before_step(self, f):
        self.before = {n: (f.dev[n]._part, f.dev[n]._output) for n in self.batchers}

    def quiescent(self, f):
        # (c, converse) a batcher with nothing left to unpack takes input again: when time advances its input slot may
        # hold a part, a batch that still has parts, or nothing - not an exhausted batch that would block it for good
        for n in self.batchers:
            p = f.dev[n]._part
            if isinstance(p, f.lib.Batch) and not leaves_of(p, f.lib):
                f.fail('C17.c', f'time advances from {f.env.now} while batcher {n} keeps the empty batch {p.name} in its input '
                       f'slot: it has nothing left to unpack but cannot accept input', 'empty_batch_kept')

    def after_step(self, f, e):
        lib = f.lib
        step_accepts = {}
        while self.recv_seen < len(f.recv_log):
            rec = f.recv_log[self.recv_seen]
            n, item = rec[0], rec[1]
            lv = rec[5]
            self.recv_seen += 1
            if isinstance(item, lib.Batch):
                # (e) at the moment of acceptance the routing history of every contained part ended with the device
                if not rec[7]:
                    f.fail('C17.e', f'{n} accepted batch {item.name} at {rec[2]} but the routing history of a part in it did '
                           f'not end with {n} at that moment', 'batch_history')
                f.bump(f.stats['reach'], 'batch_accepted')
            if n in self.inseq:
                self.inseq[n].extend(lv)
                step_accepts[n] = step_accepts.get(n, 0) + 1
                pb, ob = self.before[n]
                if pb is not None or ob is not None:
                    f.fail('C17.c', f'batcher {n} accepted {item.name} while it still had '
                           f'{"parts to unpack" if pb is not None else "an output waiting"}', 'accept_busy')
                if isinstance(item, lib.Batch) and not lv:
                    f.bump(f.stats['reach'], 'empty_batch_at_batcher')
                if f.dspec[n].get('size') and isinstance(item, lib.Batch) and len(lv) % f.dspec[n]['size']:
                    f.bump(f.stats['reach'], 'indivisible_batch')
        for n in self.batchers:
            o = f.dev[n]
            size = f.dspec[n].get('size')
            out = o._output
            if out is not None and out is not self.last_out[n]:
                lv = leaves_of(out, lib)
                self.outseq[n].extend(lv)
                self.last_out[n] = out
                if size is None:
                    if isinstance(out, lib.Batch):
                        f.fail('C17.b', f'single-part batcher {n} emitted a batch {out.name}', 'batch_from_single')
                else:
                    if not isinstance(out, lib.Batch) or len(out.parts) != size:
                        f.fail('C17.b', f'batcher {n} (size {size}) emitted '
                               f'{len(lv) if isinstance(out, lib.Batch) else "a single part"}', 'wrong_size')
                self.ev(f, 'C17.b')
            elif out is None:
                self.last_out[n] = None
            # (a) order
            ins, outs = self.inseq[n], self.outseq[n]
            if outs != ins[:len(outs)]:
                f.fail('C17.a', f'batcher {n}: parts left in order {[p.name for p in outs][-6:]}, arrived in order '
                       f'{[p.name for p in ins[:len(outs)]][-6:]}', 'order')
            rest = (leaves_of(o._in_progress_batch, lib) if o._in_progress_batch is not None else []) \
                + leaves_of(o._part, lib)
            if ins[len(outs):] != rest:
                f.fail('C17.a', f'batcher {n}: parts not yet emitted {[p.name for p in ins[len(outs):]]} differ from '
                       f'its content {[p.name for p in rest]}', 'content')
            if o._in_progress_batch is not None and size and len(o._in_progress_batch.parts) >= size:
                f.fail('C17.b', f'batcher {n} keeps {len(o._in_progress_batch.parts)} parts in an open batch of '
                       f'size {size}', 'overfull')
        # (e) every routing-history update of a batch reached all the parts it contains: a part's history ends with
        # the history the batch has accumulated (all of a part's history for batches made by a source)
        for n in f.holders:
            for slot, item in f.slots(n):
                if not isinstance(item, lib.Batch) or slot == 'inprog':
                    continue
                bh = item.routing_history
                if not bh:
                    continue
                for p in item.parts:
                    ph = p.routing_history
                    ok = ph[-len(bh):] == bh and (id(item) not in f.item_src or len(ph) == len(bh))
                    if not ok:
                        f.fail('C17.e', f'batch {item.name} at {n} has routing history {[d.name for d in bh]} but its part '
                               f'{p.name} has {[d.name for d in ph]}', 'batch_history_sync')
                self.ev(f, 'C17.e')
        # (d) sinks and buffers count leaves
        for n in f.sinks:
            o = f.dev[n]
            cp = o.collected_parts
            while self.sink_seen[n] < len(cp):
                self.sink_cnt[n] += len(leaves_of(cp[self.sink_seen[n]], lib))
                self.sink_seen[n] += 1
            if o.received_parts_count != self.sink_cnt[n]:
                f.fail('C17.d', f'sink {n} counts {o.received_parts_count} parts, received {self.sink_cnt[n]}',
                       'sink_count')
        for n in f.buffers:
            o = f.dev[n]
            c = sum(len(leaves_of(x, lib)) for x in o.stored_parts)
            if o.level() != c:
                f.fail('C17.d', f'buffer {n} level {o.level()} but stores {c} parts', 'buffer_level')
        self.ev(f, 'C17', len(self.batchers))


# ===========================================================================
# C08 routing fidelity
# ===========================================================================
class RouteGraph:
    """Route graph derived from the spec only (never from the objects)."""

    def __init__(self, spec):
        self.d = {x['n']: x for x in spec['devices']}
        self.rewire({x['n']: x.get('up', ()) for x in spec['devices']})
        self.group_in = {}
        self.group_out = {}
        for x in spec['devices']:
            if x['k'] == 'group':
                self.group_in[x['n']] = list(x.get('inputs') or x['members'][:1])
                self.group_out[x['n']] = list(x.get('outputs') or x['members'][-1:])

    def rewire(self, wiring):
        """(re)build the downstream lists from {device: its upstreams}; devices not mentioned keep theirs"""
        self.up = dict(getattr(self, 'up', {}))
        for n, ups in wiring.items():
            self.up[n] = list(ups)
        self.down = {n: [] for n in self.d}
        for n, ups in self.up.items():
            for u in ups:
                self.down[u].append(n)

    def exits(self, name, stack):
        """[(next device, stack)] when a part leaves device `name`."""
        res = [(d, stack) for d in self.down[name]]
        g = self.d[name].get('in')
        if g and name in self.group_out[g] and stack and self.d[stack[-1]]['group'] == g:
            res += self.exits(stack[-1], stack[:-1])
        return res

    def successors(self, last, stack):
        if self.d[last]['k'] == 'path':
            # `last` was entered (pushed by the caller): next is an input device of its group
            return [(m, stack) for m in self.group_in[self.d[last]['group']]]
        return self.exits(last, stack)


class C08Monitor(Monitor):
    def start(self, f):
        self.g = RouteGraph(f.spec)
        self.wiring_seen = None
        self.state = {}      # leaf id -> [validated length, stack tuple]
        self.item_len = {}   # item id -> validated length (gate predicates)
        self.item_ord = {}
        self.sink_seen = {n: 0 for n in f.sinks}
        self.prev_items = set()
        self.now_items = set()
        self.keep_alive = []

    def walk(self, f, lf):
        h = lf.routing_history
        st = self.state.get(id(lf))
        if st is None:
            st = self.state[id(lf)] = [0, ()]
        if len(h) == st[0]:
            return
        if len(h) < st[0]:
            f.fail('C08.a', f'routing history of {lf.name} shrank from {st[0]} to {len(h)} entries', 'shrank')
        names = []
        for dev in h:
            nm = f.name_of.get(id(dev))
            if nm is None:
                f.fail('C08.a', f'routing history of {lf.name} lists {getattr(dev, "name", dev)}, which is not a '
                       f'configured device', 'unknown_device')
            names.append(nm)
        stack = st[1]
        for i in range(st[0], len(names)):
            x = names[i]
            if i == 0:
                if x != f.leaf_src[id(lf)]:
                    f.fail('C08.a', f'history of {lf.name} starts with {x}, it was made by {f.leaf_src[id(lf)]}',
                           'start')
            else:
                last = names[i - 1]
                succ = self.g.successors(last, stack)
                hit = [s for s in succ if s[0] == x]
                if not hit:
                    f.fail('C08.a', f'part {lf.name}: history goes {last} -> {x}, but from {last} (open group paths '
                           f'{list(stack)}) only {sorted({s[0] for s in succ})} can follow; history: {names}',
                           'bad_edge', last_kind=self.g.d[last]['k'])
                if len(stack) != len(hit[0][1]):
                    f.bump(f.stats['reach'], 'group_exits')
                    if len(stack) - len(hit[0][1]) > 1:
                        f.bump(f.stats['reach'], 'nested_group_exits')
                stack = hit[0][1]
            if self.g.d[x]['k'] == 'path':
                stack = stack + (x,)
                if len(stack) > 1:
                    f.bump(f.stats['reach'], 'nested_group_entries')
                if stack.count(x) == 0:
                    pass
            # (d) blocked inputs
            dev = f.dev[x]
            if i >= st[0] and dev.block_input:
                op = f.cur_op
                if not (op and op['op'] == 'block' and op.get('dev') == x):
                    f.fail('C08.d', f'part {lf.name} entered {x} whose input is blocked', 'blocked_entry')
        st[0], st[1] = len(names), stack
        self.ev(f, 'C08.a')

    def check_item(self, f, item):
        lib = f.lib
        k = id(item)
        h = item.routing_history
        self.now_items.add(k)
        if k not in self.item_ord:
            self.keep_alive.append(item)      # python ids must not be recycled while they key item_ord
            self.item_ord[k] = ordinal_of(item, lib)
            self.item_len[k] = 0 if k in f.item_src else len(h)
        elif k not in self.prev_items:
            # it travelled inside a batch meanwhile: those gate passes were the batch's
            self.item_len[k] = len(h)
        for dev in h[self.item_len[k]:]:
            nm = f.name_of.get(id(dev))
            if nm is not None and f.kind[nm] == 'gate':
                self.ev(f, 'C08.c')
                if not pred_accepts(f.dspec[nm]['pred'], self.item_ord[k]):
                    f.fail('C08.c', f'{item.name} (ordinal {self.item_ord[k]}) passed gate {nm} whose predicate '
                           f'{f.dspec[nm]["pred"]} rejects it', 'gate')
        self.item_len[k] = len(h)

    def after_step(self, f, e):
        lib = f.lib
        self.prev_items, self.now_items = self.now_items, set()
        for lid in f.where:
            lf = f.leaf_by_id.get(lid)
            if lf is not None:
                self.walk(f, lf)
        for s, item in f.new_deliveries:
            for lf in leaves_of(item, lib):
                self.walk(f, lf)
                self.check_holders(f, lf)
            self.check_item(f, item)
        for n in f.holders:
            for slot, item in f.slots(n):
                self.check_item(f, item)
                self.check_open_paths(f, n, item)
        for lf, a, b in f.moves:
            if lf is not None:
                self.check_holders(f, lf)
        # (e) collected order
        for n in f.sinks:
            o = f.dev[n]
            recs = f.env.simulation_data.get('received_part', {}).get(n, [])
            cp = o.collected_parts
            if len(cp) != len(recs):
                f.fail('C08.e', f'sink {n} collected {len(cp)} parts, recorded {len(recs)} receipts', 'collected_len')
            k = self.sink_seen[n]
            while k < len(cp):
                if cp[k].id != recs[k][1]:
                    f.fail('C08.e', f'sink {n}: collected_parts[{k}] is part id {cp[k].id}, the {k}-th receipt was '
                           f'part id {recs[k][1]}', 'collected_order')
                k += 1
            self.sink_seen[n] = k
        if f.rewired and f.wiring != self.wiring_seen:
            # set_upstream() took effect in this dispatch (it moves nothing itself): later hops follow the new connections
            self.wiring_seen = {n: list(u) for n, u in f.wiring.items()}
            self.g.rewire(self.wiring_seen)
            f.bump(f.stats['reach'], 'routes_checked_after_rewire')

    def check_open_paths(self, f, n, item):
        """The group paths an item at rest in a device still has to leave through (the library keeps them on the item) are
        exactly the ones its history says it entered and has not left: nothing left over from a refused entry, nothing
        missing.  (Skipped if the item does not carry such a list.)"""
        real = getattr(item, '_group_pathing', None)
        if not isinstance(real, list):
            return
        lv = leaves_of(item, f.lib)
        st = self.state.get(id(lv[0])) if lv else None
        if st is None or len(lv[0].routing_history) != st[0]:
            return
        names = [f.name_of.get(id(x)) for x in real]
        if None in names:
            return
        if names != list(st[1]):
            f.fail('C08.a', f'{item.name} at rest in {n} is marked as having to leave through group paths {names}; its history '
                   f'says it has entered and not left {list(st[1])}', 'open_paths')

    def check_holders(self, f, lf):
        """(b) holders observed by the census == history filtered to holding devices."""
        seen = list(f.hseq.get(id(lf), []))
        names = [f.name_of.get(id(d)) for d in lf.routing_history]
        hist = [n for n in names if n is not None and f.kind[n] in HOLDER_KINDS]
        if seen and hist and seen[0] != hist[0] and f.kind[hist[0]] == 'source':
            seen = [hist[0]] + seen   # generated and handed over before the first observation
        # a re-entrant route may visit the same holder twice in a row, which the census cannot tell from staying
        hist = [n for i, n in enumerate(hist) if i == 0 or hist[i - 1] != n]
        if seen != hist:
            f.fail('C08.b', f'part {lf.name} was held by {seen} but its routing history lists holders {hist}',
                   'holders')
        self.ev(f, 'C08.b')


# ===========================================================================
# C15 recorded data mirrors what happened
# ===========================================================================
class C15Monitor(Monitor):
    def start(self, f):
        self.lens = {}
        self.recv_seen = 0
        self.fin_seen = 0
        self.n_recv = {}
        self.n_fin = {}
        self.n_fail = {n: 0 for n in f.procs}
        self.n_start = 0
        self.n_finish = 0
        self.leafcount = {}
        self.sink_leaves = {n: 0 for n in f.sinks}
        self.dispatch_log = []
        ET = f.lib.EventType
        self.ET = ET
        self.known_resources = set(f.spec.get('resources', {}))
        self.part_before = {}

    def scan(self, f):
        """(c) every new record is stamped with the current time; returns the new records."""
        now, sd = f.env.now, f.env.simulation_data
        new = {}
        for label, table in sd.items():
            for sub, recs in table.items():
                k = (label, sub)
                seen = self.lens.get(k, 0)
                if len(recs) < seen:
                    f.fail('C15.c', f'records {label}/{sub} shrank', 'shrank')
                if len(recs) > seen:
                    new[k] = recs[seen:]
                    for r in recs[seen:]:
                        t = r[0] if isinstance(r, tuple) else None
                        if t != now:
                            f.fail('C15.c', f'record {label}/{sub} {r} is stamped {t}, now is {now}', 'stamp')
                    self.lens[k] = len(recs)
        return new

    def before_step(self, f):
        if f.step_no == 1:
            self.scan(f)    # records written during initialisation
        self.part_before = {n: f.dev[n]._part for n in f.procs}

    def after_step(self, f, e):
        env, now, sd = f.env, f.env.now, f.env.simulation_data
        ET = self.ET
        if e is not None and f.trace_on:
            a = e.action
            self.dispatch_log.append({'time': e.time, 'asset_id': e.asset_id,
                                      'action': getattr(a, '__name__', None) or getattr(getattr(a, 'func', None), '__name__', None),
                                      'message': e.message, 'event_type': e.event_type})
        if e is not None:
            if not e.cancelled:
                if e.event_type == ET.FAIL:
                    for n in f.procs:
                        if f.dev[n].id == e.asset_id:
                            self.n_fail[n] += 1
                            # the failure record names the part that was in process (whatever kind of part it is)
                            lost = self.part_before.get(n)
                            recs = sd.get('device_failure', {}).get(n, [])
                            want = (now, lost.id if lost is not None else None)
                            if not recs or tuple(recs[-1]) != want:
                                f.fail('C15.c', f'failure of {n} at {now} with {getattr(lost, "name", None)} in process recorded '
                                       f'{recs[-1] if recs else None}, expected {want}', 'failure_record')
                if f.maint is not None and e.asset_id == f.maint.id:
                    if e.event_type == ET.START_WORK:
                        self.n_start += 1
                    elif e.event_type == ET.FINISH_WORK:
                        self.n_finish += 1
        op = f.cur_op
        if op is not None and op['op'] == 'addres':
            self.known_resources.add(op['res'])
        new = self.scan(f)
        # (c)/(d) received and produced records match the occurrences seen by the harness callbacks
        exp_recv, exp_fin = {}, {}
        while self.recv_seen < len(f.recv_log):
            n, item, t, eff, val, lv, q = f.recv_log[self.recv_seen][:7]
            self.recv_seen += 1
            exp_recv.setdefault(n, []).append((t, item.id, q, val))
            self.n_recv[n] = self.n_recv.get(n, 0) + 1
            if f.kind[n] == 'sink':
                self.sink_leaves[n] += len(lv)
        while self.fin_seen < len(f.finish_log):
            n, item, t, q, val = f.finish_log[self.fin_seen]
            self.fin_seen += 1
            exp_fin.setdefault(n, []).append((t, item.id, q, val))
            self.n_fin[n] = self.n_fin.get(n, 0) + 1
        for n in set(exp_recv) | {k[1] for k in new if k[0] == 'received_part'}:
            got = list(new.get(('received_part', n), []))
            if got != exp_recv.get(n, []):
                f.fail('C15.c', f'{n}: received_part records of this step {got} but the device received '
                       f'{exp_recv.get(n, [])}', 'received_records')
        for n in set(exp_fin) | {k[1] for k in new if k[0] == 'produced_part'}:
            got = list(new.get(('produced_part', n), []))
            if got != exp_fin.get(n, []):
                f.fail('C15.c', f'{n}: produced_part records of this step {got} but the processor finished '
                       f'{exp_fin.get(n, [])}', 'produced_records')
        # (a) buffer levels
        for b in f.buffers:
            recs = sd.get('level', {}).get(b, [])
            last = recs[-1][1] if recs else 0
            if last != f.dev[b].level():
                f.fail('C15.a', f'last recorded level of {b} is {last}, its level is {f.dev[b].level()}', 'level')
        # (b) resources
        for r in self.known_resources:
            u, c = f.rm.get_resource_usage(r), f.rm.get_resource_capacity(r)
            recs = sd.get('resource_update', {}).get(r, [])
            if recs:
                if (recs[-1][1], recs[-1][2]) != (u, c):
                    f.fail('C15.b', f'last resource_update of {r} is {recs[-1]}, pool has usage {u} capacity {c}',
                           'resource')
            elif (u, c) != (0, 0) and (u, c) != (0.0, 0.0):
                f.fail('C15.b', f'resource {r} has usage {u} capacity {c} but no resource_update record', 'resource_none')
        # (d) counters
        for n in f.sources:
            o = f.dev[n]
            c = len(sd.get('supplied_new_part', {}).get(n, []))
            left = o._part_generator._generated_part_counter - (1 if o._output is not None else 0)
            if not (c == o.produced_parts == left):
                f.fail('C15.d', f'source {n}: {c} supplied_new_part records, produced_parts {o.produced_parts}, '
                       f'{left} parts left it', 'supplied')
        for n in f.procs:
            c = len(sd.get('device_failure', {}).get(n, []))
            if c != self.n_fail[n]:
                f.fail('C15.d', f'{n}: {c} device_failure records, {self.n_fail[n]} failure events executed', 'failures')
        for n in f.holders:
            if f.kind[n] == 'source':
                continue
            c = len(sd.get('received_part', {}).get(n, []))
            if c != self.n_recv.get(n, 0):
                f.fail('C15.d', f'{n}: {c} received_part records, {self.n_recv.get(n, 0)} receipts', 'received_count')
        for n in f.procs:
            c = len(sd.get('produced_part', {}).get(n, []))
            if c != self.n_fin.get(n, 0):
                f.fail('C15.d', f'{n}: {c} produced_part records, {self.n_fin.get(n, 0)} finishes', 'produced_count')
        for n in f.sinks:
            if f.dev[n].received_parts_count != self.sink_leaves[n]:
                f.fail('C15.d', f'sink {n}.received_parts_count is {f.dev[n].received_parts_count}, its received_part '
                       f'records hold {self.sink_leaves[n]} parts', 'sink_count')
        if f.maint is not None:
            m = f.maint.name
            acc = sum(1 for w in f.wo_log if w[3])
            eq = len(sd.get('enter_queue', {}).get(m, []))
            st = len(sd.get('start_work_order', {}).get(m, []))
            fi = len(sd.get('finish_work_order', {}).get(m, []))
            if (eq, st, fi) != (acc, self.n_start, self.n_finish):
                f.fail('C15.d', f'work order records enter/start/finish = {(eq, st, fi)}, occurrences = '
                       f'{(acc, self.n_start, self.n_finish)}', 'work_orders')
        for i, s in enumerate(f.scheds):
            # one schedule record per state change (= one action call on the single registered object), same time and state
            recs = sd.get('schedule_update', {}).get(s.name, [])
            log = f.sched_log[i]
            if [tuple(r) for r in recs] != [(c[1], c[2]) for c in log] or any(c[0] != c[1] for c in log):
                f.fail('C15.d', f'scheduler {s.name}: {len(recs)} schedule_update records {list(recs)[-3:]}, {len(log)} state '
                       f'changes observed {[(c[1], c[2]) for c in log][-3:]}', 'schedule_records')
            if log:
                f.bump(f.stats['reach'], 'schedule_records_compared')
        self.ev(f, 'C15')

    def after_simulate(self, f):
        if not f.trace_on:
            return
        import json
        path = os.path.join(os.environ['HOME'], 'Downloads', f'{f.env.name}_trace.json')
        try:
            with open(path) as fp:
                tr = json.load(fp)
        except FileNotFoundError:
            f.fail('C15.e', 'trace=True but no trace file was exported', 'no_trace')
        except ValueError as ex:
            f.fail('C15.e', f'the exported trace file is not valid JSON: {ex}', 'trace_unreadable')
        if not isinstance(tr, dict):
            f.fail('C15.e', f'the exported trace is a {type(tr).__name__}, not a mapping index -> event', 'trace_shape')
        got = [tr[str(i)] for i in range(len(tr))] if all(str(i) in tr for i in range(len(tr))) else None
        if got is None:
            f.fail('C15.e', f'trace keys are not 0..{len(tr) - 1}', 'trace_keys')
        if len(got) != len(self.dispatch_log):
            f.fail('C15.e', f'trace lists {len(got)} events, {len(self.dispatch_log)} were executed', 'trace_len')
        for i, (g, w) in enumerate(zip(got, self.dispatch_log)):
            for k in ('time', 'asset_id', 'action', 'message', 'event_type'):
                if g.get(k) != w[k]:
                    f.fail('C15.e', f'trace entry {i} has {k}={g.get(k)!r}, the {i}-th executed event had {w[k]!r}',
                           'trace_entry')
        f.bump(f.stats['reach'], 'traces_compared')
        os.remove(path)


# ===========================================================================
# C01 dispatch order on whole models (events of real devices through the real queue)
# ===========================================================================
class C01FloorMonitor(Monitor):
    def start(self, f):
        self.prev_now = 0
        self.executed = {}
        self.t0 = 0
        self.keep = []

    def before_step(self, f):
        if f.pseudo_step:
            return
        q = list(f.env._events)
        self.snap = q
        self.min_key = min((e.time, -e.event_type) for e in q)
        self.prev_now = f.env.now

    def after_step(self, f, e):
        env = f.env
        if f.pseudo_step:
            return
        if e is None:
            f.fail('C01.a', 'step() executed no event', 'noexec')
        if not any(e is x for x in self.snap):
            f.fail('C01.a', 'the executed event was not in the queue', 'notqueued')
        if (e.time, -e.event_type) != self.min_key:
            f.fail('C01.a', f'executed an event with time={e.time} priority={float(e.event_type)} while the queue held '
                   f'one with time={self.min_key[0]} priority={-self.min_key[1]}', 'notmin')
        if env.now != e.time:
            f.fail('C01.b', f'clock is {env.now} after executing an event due at {e.time}', 'clock')
        if env.now < self.prev_now:
            f.fail('C01.b', f'clock went backwards: {self.prev_now} -> {env.now}', 'backwards')
        if any(e is x for x in env._events):
            f.fail('C01.d', 'the executed event is still queued', 'requeued')
        if id(e) in self.executed:
            f.fail('C01.d', 'an event was dispatched twice', 'twice')
        self.executed[id(e)] = True
        self.keep.append(e)
        self.ev(f, 'C01.a')

    def after_simulate(self, f):
        env = f.env
        dur = f.spec['plan'][self.n_sim] if hasattr(self, 'n_sim') else f.spec['plan'][0]
        self.n_sim = getattr(self, 'n_sim', 0) + 1
        end = self.t0 + dur
        if env.now != end:
            f.fail('C01.e', f'simulate({dur}) from {self.t0} ended with the clock at {env.now}', 'endclock')
        for e in env._events:
            if e.time < end or (e.time == end and e.event_type > 1):
                f.fail('C01.e', f'simulate({dur}) from {self.t0} returned leaving an event due at {e.time} '
                       f'(priority {float(e.event_type)})', 'left')
        self.t0 = end
        self.ev(f, 'C01.e')


# ===========================================================================
# C08.f among parallel single-slot candidates the one idle longest receives the part
# ===========================================================================
def probe_candidates(f, holder, item, cands, heads=None):
    """One forked child per candidate: would it accept the part if it were offered alone?  (heads: candidate -> the
    pass-through controller in front of it through which the holder reaches it)"""
    out = []
    for c in cands:
        entry = (heads or {}).get((holder, c), c)
        r, w = os.pipe()
        pid = os.fork()
        if pid == 0:
            try:
                os.close(r)
                try:
                    ok = bool(f.dev[entry].give_part(item))
                except BaseException:
                    ok = False
                os.write(w, b'1' if ok else b'0')
            finally:
                os._exit(0)
        os.close(w)
        data = os.read(r, 16)
        os.close(r)
        os.waitpid(pid, 0)
        if not data:
            raise HarnessError('candidate probe child died')
        if data == b'1':
            out.append(c)
    return out


class C08FMonitor(Monitor):
    SINGLE = ('handler', 'proc', 'sink')

    def post_step_choices(self, f, now):
        """Every hand-over of this dispatch from a holder with >= 2 directly connected single-slot candidates (a buffer
        can hand over several parts in one dispatch): a candidate that stayed empty through the whole dispatch, had been
        idle longer than the taker under both readings, and accepts the same part when offered now (nothing frees
        capacity inside a dispatch, so it would have accepted then too) should have received it."""
        if f.rewired or not self.direct or f.pseudo_step:
            return
        new = f.recv_log[self.post_seen:]
        self.post_seen = len(f.recv_log)
        if not new:
            return
        took = {}
        for rec in new:
            took.setdefault(rec[0], []).append(rec[1])
        tmp_empty = dict(self.empty_since)
        for rec in new:
            x, item = rec[0], rec[1]
            if x not in self.idle_since:
                continue
            holders = [h for h, dn in self.direct.items() if x in dn]
            src_h = None
            for h in holders:
                names = [f.name_of.get(id(d)) for d in item.routing_history]
                tail = [h] + self.chain[(h, x)] + [x]
                if names[-len(tail):] == tail:
                    src_h = h
            x_since = tmp_empty.get(x)
            # after accepting, a zero-cycle sink is empty again at `now`; anything else is busy
            tmp_empty[x] = now if (f.kind[x] == 'sink' and f.dev[x]._part is None) else None
            if src_h is None or x_since is None:
                continue
            cands = [y for y in self.direct[src_h] if y != x and y not in took and self.idle_since.get(y) is not None
                     and self.idle_since[y] < x_since]
            cands = [y for y in cands if f.dev[y].is_operational() and f.dev[y]._part is None and f.dev[y]._output is None]
            if not cands:
                continue
            f.bump(f.stats['reach'], 'post_step_choice_probes')
            acc = probe_candidates(f, src_h, item, cands, self.head)
            if acc:
                f.fail('C08.f', f'{src_h} handed {item.name} to {x} (empty since {x_since}) although {acc} stayed idle, would '
                       f'have accepted it and has been empty and operational since {[self.idle_since[y] for y in acc]}',
                       'not_longest_idle')

    def start(self, f):
        self.single = [n for n in f.holders if f.kind[n] in self.SINGLE]
        self.idle_since = {n: 0 for n in self.single}     # empty and operational since
        self.empty_since = {n: 0 for n in self.single}    # empty since (whatever the operational state)
        self.recv_seen = 0
        self.post_seen = 0
        self.pending = None
        g = RouteGraph(f.spec)
        # holder -> its parallel single-slot candidates: connected directly or through a chain of pass-through
        # controllers (gates / plain PartFlowControllers outside groups) that each have exactly one downstream
        self.direct = {}
        self.head = {}
        self.chain = {}
        for n in f.holders:
            if f.kind[n] == 'sink' or 'in' in f.dspec[n]:
                continue
            terms = []
            for d in g.down[n]:
                x, chain = d, []
                while f.kind.get(x) == 'gate' and 'in' not in f.dspec[x] and len(g.down[x]) == 1:
                    chain.append(x)
                    x = g.down[x][0]
                if f.kind.get(x) in self.SINGLE and 'in' not in f.dspec[x]:
                    terms.append((x, d, chain))
                else:
                    terms = None
                    break
            if terms and len(terms) >= 2 and len({t[0] for t in terms}) == len(terms):
                self.direct[n] = [t[0] for t in terms]
                for x, d, chain in terms:
                    self.head[(n, x)] = d
                    self.chain[(n, x)] = chain

    def before_step(self, f):
        self.pending = None
        if f.rewired or not self.direct or f.pseudo_step:
            return
        ev = f.env._events[0]
        a = ev.action
        h = f.name_of.get(id(getattr(a, '__self__', None)))
        if h not in self.direct or getattr(a, '__name__', '') != '_pass_part_downstream' or ev.cancelled:
            return
        ready = dict(ready_parts(f)).get(h)
        if ready is None:
            return
        cands = [c for c in self.direct[h] if self.idle_since[c] is not None]
        if len(cands) < 2:
            return
        acc = probe_candidates(f, h, ready, cands, self.head)
        f.bump(f.stats['reach'], 'handovers_with_choice_probed')
        if any(self.chain[(h, c)] for c in cands):
            f.bump(f.stats['reach'], 'choice_through_pass_through_controller')
        if len(acc) >= 2:
            self.pending = (h, ready, acc, {c: (self.idle_since[c], self.empty_since[c]) for c in acc})

    def after_step(self, f, e):
        now = f.env.now
        accepted = set()
        while self.recv_seen < len(f.recv_log):
            accepted.add(f.recv_log[self.recv_seen][0])
            self.recv_seen += 1
        if self.pending is not None:
            h, item, acc, since = self.pending
            taker = None
            for c in acc:
                o = f.dev[c]
                if o._part is item or o._output is item or (f.kind[c] == 'sink' and c in accepted and
                                                            f.dev[c].collected_parts and f.dev[c].collected_parts[-1] is item):
                    taker = c
            if taker is not None:
                self.ev(f, 'C08.f')
                if len(set(since.values())) > 1:
                    f.bump(f.stats['reach'], 'choice_with_distinct_idle_times')
                # "idle" may or may not count time spent shut down: flag only if another candidate has been idle
                # longer under both readings (its operational-and-empty time precedes the taker's empty time)
                longer = [c for c in acc if c != taker and since[c][0] < since[taker][1]]
                if longer:
                    f.fail('C08.f', f'{h} handed {item.name} to {taker} (empty since {since[taker][1]}) although '
                           f'{longer} would have accepted it and has been empty and operational since '
                           f'{[since[c][0] for c in longer]}', 'not_longest_idle')
            self.pending = None
        self.post_step_choices(f, now)
        for n in self.single:
            o = f.dev[n]
            empty = o._part is None and o._output is None
            idle = empty and o.is_operational()
            if not empty:
                self.empty_since[n] = None
            elif self.empty_since[n] is None or n in accepted:
                self.empty_since[n] = now
            if not idle:
                self.idle_since[n] = None
            elif self.idle_since[n] is None or n in accepted:
                self.idle_since[n] = now


BY_PROP = {
    'C01': [C01FloorMonitor],
    'C02': [DownTracker, Census, C02Monitor],
    'C03': [C03Monitor],
    'C05': [C05Monitor],
    'C06': [DownTracker, Integrator, C06Monitor],
    'C08': [Census, C08Monitor, C08FMonitor],
    'C11': [C11Monitor],
    'C13': [DownTracker, Integrator, C13Monitor],
    'C15': [C15Monitor],
    'C16': [Census, C16Monitor, C16Final],
    'C17': [C17Monitor],
}
