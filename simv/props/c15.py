from ._floorprop import FloorProp


class C15(FloorProp):
    id = 'C15'
    profile = 'c15'
    crash_every = 6
    design_ref = 'DESIGN.md section 4 / C15'
    budgets = {'quick': 30000, 'thorough': 600000}


PROP = C15()
