"""C02 - parts are conserved."""
from ._floorprop import FloorProp


class C02(FloorProp):
    id = 'C02'
    profile = 'c02'
    crash_every = 6
    design_ref = 'DESIGN.md section 4 / C02'
    budgets = {'quick': 30000, 'thorough': 600000}
    level_text = ('Seeded search over random factory models (layered DAGs with fan-in/out, gates, shared, re-entrant and '
                  'nested groups, batches) x fault/op schedules x tie-break adversaries; a census of every generated part is '
                  'taken after every dispatched event. Sampling, not proof: the property quantifies over all topologies and '
                  'schedules.')
    level_note = 'Trusts the harness census (reads private slots) and the spec generator\'s well-posedness rules.'
    rule = ('floorsim c02 profile: one run = one generated spec (1-2 sources, 1-4 layers, handlers/processors/buffers/'
            'batchers/gate pairs/group paths, 0-40 ops from 12 fault kinds, split run plans). Non-trivial = generated >= 2 '
            'parts and dispatched >= 10 events; distinct = distinct digest of the dispatch sequence.')
    assumptions = FloorProp.base_assumptions + [
        'a part is "reported lost" when a shutdown callback receives it with is_failure=True']


PROP = C02()
