"""C07 - pausing, resuming and cancelling events preserves remaining delays."""
from .. import core, envsim
from ..driver import Prop


class C07(Prop):
    id = 'C07'
    level_text = 'Seeded search plus a complete sweep of all op sequences of length <= 4 over a stated small alphabet, every op and dispatch compared with an executable pause/resume/cancel model in lockstep. Exploration level: complete only for the tiny alphabet, sampled beyond.'
    level_note = 'Trusts: the harness model (QModel), dyadic grid; asset id -1 never paused.'
    design_ref = 'DESIGN.md section 4 / C07'
    budgets = {'quick': 200000, 'thorough': 1500000}
    rule = ('envsim programs biased to pause/unpause/cancel (>= 50% contain a pause of an id with pending events at a '
            'non-zero time and a later unpause), lockstep against a dict-based pause/resume/cancel model; plus a '
            'systematic family: all op sequences of length <= 4 (thorough; quick: length <= 3 and a slice of 4) over '
            '{sched, pause, unpause, cancel} x 2 ids and 2 run lengths, started at t=0.25 with pending events. '
            'Non-trivial = the run executed a pause, unpause or cancel that matched >= 1 event; distinct = distinct '
            'dispatch-sequence digest.')
    assumptions = [
        'asset id -1 is never paused or cancelled (would withhold TERMINATE: API misuse, not a violation)',
        'the systematic family is complete only for its stated tiny alphabet; it is coverage, not model checking',
        'times are dyadic so original time + (now - paused_at) is exact',
    ]
    real_vs_stub = {'real': ['Environment.pause_matching_events', 'unpause_matching_events',
                             'cancel_matching_events', 'schedule_event', 'run', 'step', 'Event.execute'],
                    'stub': ['event actions (harness scripts)', 'tie-break weight source']}

    def _n_sys(self, tier):
        if tier == 'thorough':
            return envsim.systematic_count(4)
        return envsim.systematic_count(3) + 6000

    def gen(self, rng, index, tier):
        ns = self._n_sys(tier)
        if index < ns:
            full3 = envsim.systematic_count(3)
            if tier != 'thorough' and index >= full3:
                # a seeded slice of the length-4 family
                n4 = envsim.systematic_count(4) - full3
                return envsim.systematic_program(full3 + rng.randrange(n4))
            return envsim.systematic_program(index)
        return envsim.gen_program(rng, pause_bias=1.0)

    def run(self, case):
        return envsim.run_case(case, 'C07')

    def shrink(self, case):
        return envsim.shrink(case)

    def nontrivial(self, stats):
        r = stats.get('reach', {})
        return bool(r.get('pause_nonzero_with_pending') or r.get('unpause_shift_gt0') or r.get('cancel_paused'))

    def sanity(self, agg, tier):
        errs = []
        r = agg.get('reach', {})
        n = self.budgets[tier]
        for k, floor in (('unpause_shift_gt0', 200), ('resume_cancelled', 20),
                         ('redundant_pause_with_paused', 20), ('sched_while_paused', 20),
                         ('pause_nonzero_with_pending', 200), ('nested_pause', 10)):
            if r.get(k, 0) < floor and agg.get('dispatches', 0) > 50000:
                errs.append(f'C07 reach probe {k}={r.get(k, 0)} below floor {floor}')
        return errs


PROP = C07()
