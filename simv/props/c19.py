from .. import core, schedsim
from ..driver import Prop


class C19(Prop):
    id = 'C19'
    design_ref = 'DESIGN.md section 4 / C19'
    budgets = {'quick': 50000, 'thorough': 1000000}

    def gen(self, rng, index, tier):
        return schedsim.gen_sensor(rng)

    def run(self, case):
        return schedsim.run_case(case)

    def shrink(self, case):
        return schedsim.shrink_sensor(case)

    def nontrivial(self, stats):
        return stats.get('dispatches', 0) >= 5


PROP = C19()
