#!/venv/bin/python
"""Print the markdown table of /verif/seeded/*/meta.json (for DESIGN.md section 12.3)."""
import json, os, glob
rows = []
for d in sorted(glob.glob('/verif/seeded/*/meta.json')):
    m = json.load(open(d))
    name = os.path.basename(os.path.dirname(d))
    patch = open(os.path.join(os.path.dirname(d), 'patch.diff')).read()
    files = sorted({l[6:].split('/')[-1] for l in patch.splitlines() if l.startswith('+++ b/')})
    det = ', '.join(f"{c}{'' if ok else ' (missed)'}" for c, ok in m['detected_by'].items())
    first = next((v for v in m['first_violation'].values() if v.strip().startswith('C') and 'tier=' not in v), '').strip()
    first = first.split(' (shrink')[0][:150].replace('|', '/')
    rows.append(f"| {name} | {', '.join(files)} | {det} | {first} |")
print('| seeded change | file(s) | caught by (quick tier) | first violation reported |')
print('|---|---|---|---|')
print('\n'.join(rows))
