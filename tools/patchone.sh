#!/bin/sh
# tools/patchone.sh <patch.diff> <check args...>: apply a patch to a scratch export of /repo HEAD and run one check against it.
P=$(realpath "$1"); shift
D=$(mktemp -d /tmp/simv_po.XXXXXX)
git -C /repo archive HEAD | tar -x -C "$D"
(cd "$D" && patch -p1 -s < "$P") || { echo "PATCH DID NOT APPLY"; rm -rf "$D"; exit 9; }
SIMV_REPLAY_DIR="$D/replays" SIMV_REPO="$D" /verif/check "$@" --no-evidence; RC=$?
rm -rf "$D"; echo "exit=$RC"
