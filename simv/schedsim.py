"""schedsim: ActionSchedulers (C18) and sensors / CMS (C19) on a real
Environment, compared with an independently evaluated timetable / sampling
schedule and a lockstep registry model."""
import copy

from . import core
from .core import Violation, HarnessError, Aborted


class Base(core.Hooks):
    def __init__(self, case):
        self.case = case
        self.lib = core.load_library()
        self.step_no = 0
        self.stats = {'dispatches': 0, 'sim_time': 0.0, 'reach': {}}
        self.trace = []

    def bump(self, k, n=1):
        self.stats['reach'][k] = self.stats['reach'].get(k, 0) + n

    def fail(self, clause, msg, kind, **extra):
        ex = {'kind': kind}
        ex.update(extra)
        v = Violation(clause, msg, step=self.step_no, time=getattr(getattr(self, 'env', None), 'now', None), extra=ex)
        v.stats = self.stats
        raise v

    def before_step(self, env):
        self.step_no += 1
        if self.step_no == 1:
            self.check(env, None, init=True)     # what happened during initialisation
        if self.step_no > 50000:
            raise core.StepCap('schedsim step cap')

    def after_step(self, env, e):
        self.stats['dispatches'] += 1
        if e is not None:
            self.trace.append((e.time, float(e.event_type)))
        self.check(env, e)

    def check(self, env, e, init=False):
        pass


class Act:
    def __init__(self, fn, name):
        self.fn = fn
        self.__name__ = name

    def __call__(self):
        self.fn()


# ---------------------------------------------------------------------------
# C18
# ---------------------------------------------------------------------------
def expected_updates(timetable, cyclical, horizon, t0=0):
    """[(time, state)] by left-to-right addition of the durations, starting when the scheduler is initialised."""
    out = []
    t = t0
    i = 0
    n = len(timetable)
    while t <= horizon and len(out) < 100000:
        out.append((t, timetable[i][1]))
        t = t + timetable[i][0]
        i += 1
        if i >= n:
            if not cyclical:
                break
            i = 0
    return out


class SchedRunner(Base):
    def in_action(self, sched, time, state):
        """what an action sees when it looks at the scheduler that called it: the state it was told and the clock"""
        if sched.current_state != state:
            self.fail('C18.a', f'scheduler {sched.sidx}: while the action for state {state!r} runs at {time}, current_state '
                      f'reads {sched.current_state!r}', 'state_inside_action')
        if time != self.env.now:
            self.fail('C18.b', f'scheduler {sched.sidx}: action got time {time} at {self.env.now}', 'action_time')

    def run(self):
        lib, case = self.lib, self.case
        core.begin_run(self, None, case['tiebreak'], case.get('id_offset', 0))
        system = lib.System()
        self.env = env = system.env
        core.CURRENT.env = env
        runner = self
        self.calls = []          # (sched index, obj id, time, state, via)
        self.scheds = []
        self.registry = []       # per scheduler: list of (obj id, override?) in registration order
        self.objs = {}

        class HSched(lib.ActionScheduler):
            def default_action(self, obj, time, new_state):
                runner.calls.append((self.sidx, obj.k, time, new_state, 'default', self))
                runner.in_action(self, time, new_state)

        class Obj:
            def __init__(self, k):
                self.k = k

        def override(sched, obj, time, state):
            runner.calls.append((sched.sidx, obj.k, time, state, 'override', sched))
            runner.in_action(sched, time, state)

        self.override = override
        for k in range(case['n_objs']):
            self.objs[k] = Obj(k)
        horizon = sum(case['plan'])
        self.expected = [None] * len(case['scheds'])
        self.seen_rec = [0] * len(case['scheds'])
        self.exp_calls = []
        self.calls_seen = 0

        def create(si, sc):
            tt = [tuple(x) for x in sc['timetable']]
            if sc.get('share_tuples'):
                # equal entries are one and the same tuple object (day = (8, 'on'); [day, night, day])
                cache = {}
                tt = [cache.setdefault(x, x) for x in tt]
            kw = {}
            if sc['cyclical'] is not None:
                kw['is_cyclical'] = sc['cyclical']
            self.expected[si] = expected_updates(sc['timetable'], sc['cyclical'] is not False, horizon, env.now)
            s = HSched(tt, name=f'sched{si}', **kw)
            s.sidx = si
            self.scheds[si] = s
            if sc.get('mutate_list'):
                # the caller goes on using its list: the scheduler must have taken a copy
                tt[0] = (99, 'tampered')
                tt.append((0.125, 'tampered'))
                del tt[1:2]
                self.bump('caller_list_mutated')
            if system._simulation_is_initialized:
                # created late: it starts at once, before anything can be registered with it
                self.bump('late_created_scheduler')
                self.check(env, None)
            for k, ov in sc.get('pre', []):
                self.do_register(si, k, ov)

        between = []
        for si, sc in enumerate(case['scheds']):
            self.scheds.append(None)
            self.registry.append([])
            ca = sc.get('create_at')
            if ca is None:
                create(si, sc)
            elif ca == 'between':
                between.append((si, sc))
            else:
                env.schedule_event(ca[0], -2, Act(lambda si=si, sc=sc: create(si, sc), f'mk_sched{si}'), ca[1], 'mk')
        for i, op in enumerate(case['ops']):
            env.schedule_event(op['t'], -2, Act(lambda op=op: self.exec_op(op), f'sched_op{i}'), op['pr'], f'op{i}')
        for pi, dur in enumerate(case['plan']):
            system.simulate(dur, print_summary=False)
            self.stats['sim_time'] += dur
            self.check(env, None)
            if pi == 0:
                for si, sc in between:
                    create(si, sc)
        for si, sc in between:
            if self.scheds[si] is None:
                create(si, sc)
        for si, s in enumerate(self.scheds):
            if s is None:
                continue
            got = env.simulation_data.get('schedule_update', {}).get(s.name, [])
            exp = [x for x in self.expected[si] if x[0] <= env.now]
            if list(got) != exp:
                i = next((i for i, (g, w) in enumerate(zip(got, exp)) if g != w), min(len(got), len(exp)))
                self.fail('C18.a', f'scheduler {si}: schedule_update #{i} is {got[i] if i < len(got) else None}, timetable '
                          f'says {exp[i] if i < len(exp) else None} ({len(got)} recorded, {len(exp)} expected up to '
                          f'{env.now})', 'updates')
            self.stats['updates'] = self.stats.get('updates', 0) + len(got)
            if case['scheds'][si]['cyclical'] is False and len(exp) == len(case['scheds'][si]['timetable']):
                self.bump('noncyclical_reached_end')
        if core.CURRENT.dispatches != core.CURRENT.executes or core.CURRENT.dispatches == 0:
            raise HarnessError('dispatch instrumentation starved or inconsistent')
        return self.stats, core.digest(self.trace)

    def do_register(self, si, k, ov):
        s = self.scheds[si]
        exp = all(x[0] != k for x in self.registry[si])
        got = s.register_object(self.objs[k], self.override if ov else None)
        if got is not exp:
            self.fail('C18.b', f'register_object(obj{k}) on scheduler {si} returned {got}, expected {exp}', 'register_return')
        if exp:
            self.registry[si].append((k, ov))

    def exec_op(self, op):
        si, k = op['s'], op['obj']
        if self.scheds[si] is None:
            return
        if op['op'] == 'readd':
            # add_asset on an asset that is already registered must change nothing
            self.lib.System.add_asset(self.scheds[si])
            self.bump('explicit_duplicate_add_asset')
        elif op['op'] == 'register':
            self.do_register(si, k, op.get('ov', False))
            self.bump('register_during_run')
        else:
            exp = any(x[0] == k for x in self.registry[si])
            got = self.scheds[si].unregister_object(self.objs[k])
            if got is not exp:
                self.fail('C18.b', f'unregister_object(obj{k}) on scheduler {si} returned {got}, expected {exp}',
                          'unregister_return')
            self.registry[si] = [x for x in self.registry[si] if x[0] != k]
            self.bump('unregister_during_run')

    def check(self, env, e, init=False):
        sd = env.simulation_data
        for si, s in enumerate(self.scheds):
            if s is None:
                continue
            recs = sd.get('schedule_update', {}).get(s.name, [])
            new = recs[self.seen_rec[si]:]
            for r in new:
                idx = self.seen_rec[si]
                exp = self.expected[si]
                if idx >= len(exp) or tuple(r) != tuple(exp[idx]):
                    self.fail('C18.a', f'scheduler {si}: schedule_update #{idx} is {r}, timetable says '
                              f'{exp[idx] if idx < len(exp) else "no further change"}', 'update')
                if r[0] != env.now:
                    self.fail('C18.a', f'scheduler {si}: update {r} recorded at {env.now}', 'update_time')
                self.seen_rec[si] += 1
                # one call per currently registered object, registration order
                for k, ov in self.registry[si]:
                    self.exp_calls.append((si, k, r[0], r[1], 'override' if ov else 'default'))
            if recs and s.current_state != recs[-1][1]:
                self.fail('C18.a', f'scheduler {si}: current_state {s.current_state!r}, last update {recs[-1]}', 'state')
            if len(new) > 1:
                self.fail('C18.a', f'scheduler {si}: {len(new)} updates in one dispatch', 'multi_update')
        got = [(c[0], c[1], c[2], c[3], c[4]) for c in self.calls]
        for c in self.calls[self.calls_seen:]:
            if c[5] is not self.scheds[c[0]]:
                self.fail('C18.b', 'action called with a wrong scheduler argument', 'sched_arg')
        self.calls_seen = len(self.calls)
        if got != self.exp_calls:
            i = next((i for i, (g, w) in enumerate(zip(got, self.exp_calls)) if g != w), min(len(got), len(self.exp_calls)))
            self.fail('C18.b', f'action call #{i} is {got[i] if i < len(got) else None}, expected '
                      f'{self.exp_calls[i] if i < len(self.exp_calls) else None} (scheduler, object, time, state, kind); '
                      f'{len(got)} calls made, {len(self.exp_calls)} expected', 'actions')
        self.stats['action_calls'] = len(got)


def gen_sched(rng):
    n_objs = rng.choice((0, 1, 2, 3, 4))
    scheds = []
    for _ in range(rng.choice((1, 1, 2))):
        n = rng.randint(1, 6)
        states = rng.choice((['a', 'b', 'c'], ['on', 'off'], [1, 2, 3, 4]))
        tt = [[rng.choice((0, 0.25, 0.5, 1, 1, 2.5, 8)), rng.choice(states)] for _ in range(n)]
        cyc = rng.choice((None, True, False, False))
        if cyc is not False and sum(x[0] for x in tt) == 0:
            tt[rng.randrange(n)][0] = 0.5
        pre = []
        for k in range(n_objs):
            if rng.random() < 0.6:
                pre.append([k, rng.random() < 0.4])
        if pre and rng.random() < 0.2:
            pre.append(list(pre[0]))      # duplicate registration: must be ignored
        sc = {'timetable': tt, 'cyclical': cyc, 'pre': pre, 'share_tuples': rng.random() < 0.5,
              'mutate_list': rng.random() < 0.2}
        x = rng.random()
        if x < 0.15:
            sc['create_at'] = [rng.choice((0.25, 0.5, 1, 2.5)), rng.choice((2, 5, 11, 11.5))]
        elif x < 0.25:
            sc['create_at'] = 'between'
        scheds.append(sc)
    horizon = rng.choice((3, 10, 25, 60))
    ops = []
    if n_objs:
        for _ in range(rng.choice((0, 0, 2, 5, 10))):
            ops.append({'t': rng.choice([x * 0.25 for x in range(0, int(horizon * 4) + 1)]),
                        'pr': rng.choice((10, 10.5, 11, 11, 11.5, 5)), 'op': rng.choice(('register', 'unregister', 'register', 'unregister', 'readd')),
                        's': rng.randrange(len(scheds)), 'obj': rng.randrange(n_objs), 'ov': rng.random() < 0.4})
    ops.sort(key=lambda o: (o['t'], -o['pr']))
    plan = [horizon] if (rng.random() < 0.7 and not any(sc.get('create_at') == 'between' for sc in scheds)) else [horizon * 0.25, horizon * 0.75]
    return {'engine': 'schedsim', 'kind': 'sched', 'n_objs': n_objs, 'scheds': scheds, 'ops': ops, 'plan': plan,
            'tiebreak': core.gen_tiebreak(rng), 'id_offset': rng.choice((0, 9))}


def shrink_sched(case):
    ops = case['ops']
    for i in range(len(ops)):
        c = dict(case)
        c['ops'] = ops[:i] + ops[i + 1:]
        yield c
    if len(case['scheds']) > 1:
        for i in range(len(case['scheds'])):
            c = dict(case)
            c['scheds'] = [case['scheds'][i]]
            c['ops'] = [dict(o, s=0) for o in ops if o['s'] == i]
            yield c
    for si, sc in enumerate(case['scheds']):
        tt = sc['timetable']
        if len(tt) > 1:
            for i in range(len(tt)):
                t2 = tt[:i] + tt[i + 1:]
                if sc['cyclical'] is not False and sum(x[0] for x in t2) == 0:
                    continue
                c = dict(case)
                c['scheds'] = case['scheds'][:si] + [dict(sc, timetable=t2)] + case['scheds'][si + 1:]
                yield c
        if sc.get('pre'):
            c = dict(case)
            c['scheds'] = case['scheds'][:si] + [dict(sc, pre=sc['pre'][:-1])] + case['scheds'][si + 1:]
            yield c
    if len(case['plan']) > 1:
        c = dict(case)
        c['plan'] = [sum(case['plan'])]
        yield c
    tot = sum(case['plan'])
    if len(case['plan']) == 1 and tot > 3:
        c = dict(case)
        c['plan'] = [int(tot / 2 * 4) / 4]
        c['ops'] = [o for o in ops if o['t'] <= c['plan'][0]]
        yield c


def run_case(case):
    r = SchedRunner(case) if case['kind'] == 'sched' else SensorRunner(case)
    own = 'C18' if case['kind'] == 'sched' else 'C19'
    try:
        return r.run()
    except (Violation, HarnessError, core.RunTimeout):
        raise
    except core.StepCap as e:
        raise Aborted(str(e), r.stats)
    except Exception as e:
        if not core.raised_in_library(e):
            raise
        import traceback
        w = traceback.extract_tb(e.__traceback__)[-1]
        v = Violation(own + '.x', f'{type(e).__name__}: {e} at {w.filename.split("/")[-1]}:{w.lineno}', step=r.step_no,
                      time=getattr(getattr(r, 'env', None), 'now', None), extra={'kind': 'exception'})
        v.stats = r.stats
        raise v


# ---------------------------------------------------------------------------
# C19
# ---------------------------------------------------------------------------
class SensorRunner(Base):
    def run(self):
        lib, case = self.lib, self.case
        core.begin_run(self, None, case['tiebreak'], case.get('id_offset', 0))
        system = lib.System()
        self.env = env = system.env
        core.CURRENT.env = env
        runner = self

        class Target:
            pass

        class Cond:
            """a record object: hashable (default identity hash) and mutable"""
            def __init__(self, v):
                self.v = v

            def __eq__(self, other):
                return isinstance(other, Cond) and self.v == other.v

            __hash__ = object.__hash__

            def __repr__(self):
                return f'Cond({self.v})'

        self.target = tgt = Target()
        tgt.x = 0
        tgt.lst = [0]
        tgt.y = 'init'
        tgt.cond = Cond(0)
        tgt.lst0 = []
        # a small line with a processor that output-part sensors watch
        ln = case['line']

        class Gen(lib.PartGenerator):
            def generate_part_helper(self, name, counter):
                return lib.Part(name, value=counter * 0.5, quality=1 - (counter % 4) * 0.25)

        src = lib.Source('S', Gen('P'), ln['src_ct'], float('inf') if ln['parts'] is None else ln['parts'])
        self.proc = proc = lib.PartProcessor('M', [src], ln['ct'])
        lib.Sink('K', [proc], ln.get('sink_ct', 0))
        self.sensors = []
        self.sensor_probes = []    # the probe objects as handed to the constructor (keys of sensor.data)
        self.cb_log = []         # (sensor idx, cb idx, sensor arg ok, time, values copy, harness read)
        self.cms_log = []
        cms_list = []

        class HCms(lib.Cms):
            def on_sense(self, sensor, time, data):
                runner.cms_log.append((self.cidx, runner.sidx_of[id(sensor)], time, copy.deepcopy(data)))

        self.sidx_of = {}
        maint = lib.Maintainer() if case.get('cms') else None
        for ci in range(case.get('cms', 0)):
            c = HCms(maint, name=f'cms{ci}')
            c.cidx = ci
            cms_list.append(c)

        def mk_probe(p, target):
            if p[0] == 'attr':
                return lib.AttributeProbe(p[1], target)
            if p[0] == 'fn':
                return lib.Probe(lambda t, name=p[1]: getattr(t, name, None), target)
            if p[0] == 'closure':
                # the function knows where to look by itself: no target is given
                return lib.Probe(lambda t, name=p[1]: getattr(tgt, name, None), None)
            if p[0] == 'len':
                # the target is a container that is empty at first (and 0 / [] / None are targets like any other)
                return lib.Probe(len, tgt.lst0)
            raise HarnessError(p)

        self.sensors = [None] * len(case['sensors'])
        self.sensor_probes = [None] * len(case['sensors'])
        self.created_at = [None] * len(case['sensors'])     # (time, number of parts finished before) at construction

        def make_sensor(si):
            sc = case['sensors'][si]
            kw = {}
            if sc.get('cap') is not None:
                kw['data_capacity'] = sc['cap']
            self.created_at[si] = (env.now, len(self.finished))
            if sc['k'] == 'periodic':
                probes = [mk_probe(p, tgt) for p in sc['probes']]
                s = lib.PeriodicSensor(sc['interval'], probes, name=sc.get('name', f'sensor{si}'), **kw)
            else:
                probes = [mk_probe(p, None) for p in sc['probes']]
                s = lib.OutputPartSensor(proc, probes, sc['n'], name=sc.get('name', f'sensor{si}'), **kw)
            self.sidx_of[id(s)] = si
            self.sensors[si] = s
            self.sensor_probes[si] = probes
            for ci in range(sc.get('callbacks', 1)):
                s.add_on_sense_callback(self.mk_cb(si, ci, sc))
            for ci, times in sc.get('cms', []):
                for _ in range(times):
                    cms_list[ci].add_sensor(s)
            if env.now > 0:
                self.bump('sensor_created_late')

        self.finished = []       # parts finished by the processor, in order (harness callback)
        between = []
        for si, sc in enumerate(case['sensors']):
            late = sc.get('late')
            if late is None:
                make_sensor(si)
            elif late[0] == 'event':
                # constructed from inside an event while the simulation is running
                env.schedule_event(late[1], -2, Act(lambda si=si: make_sensor(si), f'mk_sensor{si}'), late[2], f'mk{si}')
            else:
                between.append(si)   # constructed between two simulate() calls
        self.manual = False
        proc.add_finish_processing_callback(lambda p, part: self.finished.append(
            (env.now, part.id, part.quality, part.value, part)))
        for i, op in enumerate(case['ops']):
            env.schedule_event(op['t'], -2, Act(lambda op=op: self.exec_op(op), f'sens_op{i}'), op['pr'], f'op{i}')
        self.samples = [[] for _ in self.sensors]     # per sensor: list of (time, values) as observed via callback 0
        for seg, dur in enumerate(case['plan']):
            if seg == 1:
                for si in between:
                    make_sensor(si)
            system.simulate(dur, print_summary=False)
            self.stats['sim_time'] += dur
        self.final_check()
        if core.CURRENT.dispatches != core.CURRENT.executes or core.CURRENT.dispatches == 0:
            raise HarnessError('dispatch instrumentation starved or inconsistent')
        return self.stats, core.digest(self.trace)

    def read_probes(self, sc, part=None):
        out = []
        for p in sc['probes']:
            tgt = self.target if sc['k'] == 'periodic' else part
            if p[0] == 'len':
                out.append(len(self.target.lst0))
            else:
                out.append(copy.deepcopy(getattr(tgt, p[1], None)))
        return out

    def mk_cb(self, si, ci, sc):
        def cb(sensor, time, values):
            part = None
            if sc['k'] == 'output':
                if self.manual:
                    part = self.sensor_probes[si][0].target       # whatever the probes were last pointed at
                else:
                    # the OutputPartSensor runs inside the processor's finish callbacks: the part being finished
                    part = self.proc._output
            self.cb_log.append((si, ci, sensor is self.sensors[si], time, copy.deepcopy(values),
                                self.read_probes(sc, part), self.env.now, self.step_no,
                                part.id if part is not None else None, self.manual))
        return cb

    def exec_op(self, op):
        t = self.target
        k = op['op']
        if k == 'set':
            t.x = op['v']
            t.y = f"v{op['v']}"
        elif k == 'append':
            t.lst.append(op['v'])      # in-place mutation: stored samples must not change
            t.lst0.append(op['v'])
            t.cond.v = op['v']
            self.bump('inplace_mutation')
        elif k == 'manual':
            # an extra measurement requested by hand on an output-part sensor: the automatic cadence must not move
            outs = [i for i, sc in enumerate(self.case['sensors']) if sc['k'] == 'output' and self.sensors[i] is not None]
            if outs:
                si = outs[op['v'] % len(outs)]
                self.manual = True
                try:
                    self.sensors[si].sense()
                finally:
                    self.manual = False
                self.bump('manual_sense')
        elif k == 'fail':
            self.proc.schedule_failure(self.env.now)
        elif k == 'restore':
            self.proc.restore_functionality()
        elif k == 'shutdown':
            self.proc.shutdown()

    def check(self, env, e, init=False):
        pass

    def final_check(self):
        env, case = self.env, self.case
        for si, sc in enumerate(case['sensors']):
            s = self.sensors[si]
            if s is None:
                continue        # its construction was planned for after the end of the run
            t0, fin0 = self.created_at[si]
            ncb = sc.get('callbacks', 1)
            mine = [c for c in self.cb_log if c[0] == si]
            # (c) callbacks once each, registration order, right arguments
            for j in range(0, len(mine), max(ncb, 1)):
                grp = mine[j:j + ncb]
                if [g[1] for g in grp] != list(range(ncb)) or len({g[7] for g in grp}) != 1:
                    self.fail('C19.c', f'sensor {si}: on-sense callbacks ran in order {[g[1] for g in mine[j:j + 2 * ncb]]}, '
                              f'registered order is {list(range(ncb))}', 'callback_order')
            for c in mine:
                if not c[2]:
                    self.fail('C19.c', f'sensor {si}: callback got a wrong sensor argument', 'callback_sensor')
                if c[3] != c[6]:
                    self.fail('C19.c', f'sensor {si}: callback got time {c[3]} at {c[6]}', 'callback_time')
                if c[4] != c[5]:
                    self.fail('C19.b', f'sensor {si}: measurement at {c[6]} delivered {c[4]}, the probed values were {c[5]}',
                              'values')
            meas = [c for c in mine if c[1] == 0] if ncb else []
            # (a)/(e) when
            if sc['k'] == 'periodic':
                exp_t = []
                t = t0           # the first sample comes one interval after the sensor came to life
                while True:
                    t = t + sc['interval']
                    if t > env.now:
                        break
                    exp_t.append(t)
                if ncb:
                    got_t = [c[6] for c in meas]
                    if got_t != exp_t:
                        i = next((i for i, (g, w) in enumerate(zip(got_t, exp_t)) if g != w), min(len(got_t), len(exp_t)))
                        self.fail('C19.a', f'sensor {si} (interval {sc["interval"]}): sample #{i + 1} at '
                                  f'{got_t[i] if i < len(got_t) else None}, expected {exp_t[i] if i < len(exp_t) else None} '
                                  f'({len(got_t)} samples, {len(exp_t)} expected)', 'sample_times')
                count = len(exp_t)
                exp_vals = None
            else:
                n = sc['n']
                fin = self.finished[fin0:]     # parts finished since the sensor exists
                exp_idx = list(range(0, len(fin), n + 1))
                n_manual = len([c for c in mine if c[1] == 0 and c[9]]) if ncb else self.stats['reach'].get('manual_sense', 0)
                count = len(exp_idx) + (n_manual if ncb else 0)
                if not ncb and self.stats['reach'].get('manual_sense', 0):
                    count = None
                if ncb:
                    got_ids = [c[8] for c in meas if not c[9]]
                    exp_ids = [fin[i][1] for i in exp_idx]
                    if got_ids != exp_ids:
                        self.fail('C19.e', f'sensor {si} (sensing interval {n}): measured parts {got_ids[:10]}, expected '
                                  f'the 1st and then every {n + 1}-th finished part: {exp_ids[:10]} '
                                  f'({len(fin)} parts finished)', 'measured_parts')
                self.stats['parts_measured'] = self.stats.get('parts_measured', 0) + (count or 0)
            if count is None:
                continue       # manual measurements on a sensor without harness callbacks: count not observable
            # (d) trimming and alignment
            cap = sc.get('cap')
            keep = count if cap is None else min(count, cap)
            lens = {str(k if isinstance(k, str) else 'probe'): len(v) for k, v in s.data.items()}
            for k, v in s.data.items():
                if len(v) != keep:
                    self.fail('C19.d', f'sensor {si} (capacity {cap}, {count} measurements): series '
                              f'{"time" if isinstance(k, str) else "of a probe"} has {len(v)} entries, expected {keep}; '
                              f'all series lengths: {[len(x) for x in s.data.values()]}', 'series_length',
                              series='time' if isinstance(k, str) else 'probe')
            if cap is not None and count > cap:
                self.bump('trimmed')
            if ncb:
                for pi, p in enumerate(self.sensor_probes[si]):
                    want = [c[5][pi] for c in meas][-keep:] if keep else []
                    if s.data[p] != want:
                        self.fail('C19.b', f'sensor {si}: stored series of probe {pi} is {s.data[p][-5:]}, the probed '
                                  f'values at the sampling instants were {want[-5:]}', 'stored_values')
                if sc['k'] == 'periodic':
                    want_t = [c[6] for c in meas][-keep:] if keep else []
                    if s.data.get('time') != want_t:
                        self.fail('C19.d', f'sensor {si}: time series {s.data.get("time")[-5:]} differs from the '
                                  f'sampling instants {want_t[-5:]}', 'time_series', series='time')
                if meas and s.last_sense != meas[-1][5]:
                    self.fail('C19.b', f'sensor {si}: last_sense {s.last_sense} != last measurement {meas[-1][5]}', 'last_sense')
            self.stats['measurements'] = self.stats.get('measurements', 0) + count
            # (f) cms deliveries
            for ci, times in sc.get('cms', []):
                got = [x for x in self.cms_log if x[0] == ci and x[1] == si]
                if len(got) != count:
                    self.fail('C19.f', f'cms {ci} received {len(got)} measurements of sensor {si}, {count} were taken '
                              f'(add_sensor called {times}x)', 'cms_count')
                if ncb and [g[3] for g in got] != [c[5] for c in meas]:
                    self.fail('C19.f', f'cms {ci}: data of sensor {si} differs from the measurements', 'cms_data')
                if times > 1:
                    self.bump('cms_added_twice')


def gen_sensor(rng):
    horizon = rng.choice((3, 8, 20))
    sensors = []
    n_cms = rng.choice((0, 1, 1, 2))
    for _ in range(rng.choice((1, 2, 3))):
        cap = rng.choice((None, 1, 2, 3, 5))
        ncb = rng.choice((1, 1, 2, 3))
        if rng.random() < 0.6:
            probes = [rng.choice((['attr', 'x'], ['attr', 'lst'], ['fn', 'y'], ['attr', 'missing'], ['fn', 'lst'], ['attr', 'cond'], ['fn', 'cond'],
                                  ['closure', 'x'], ['closure', 'lst'], ['len', 'lst0']))
                      for _ in range(rng.randint(1, 3))]
            sc = {'k': 'periodic', 'interval': rng.choice((0.25, 0.5, 1, 3, 0.1, 0.7)), 'probes': probes}
        else:
            probes = [rng.choice((['attr', 'quality'], ['attr', 'value'], ['attr', 'id'], ['fn', 'name']))
                      for _ in range(rng.randint(1, 3))]
            sc = {'k': 'output', 'n': rng.choice((0, 0, 1, 2, 3)), 'probes': probes}
        sc['cap'] = cap
        sc['callbacks'] = ncb
        sc['cms'] = [[ci, rng.choice((1, 1, 2))] for ci in range(n_cms) if rng.random() < 0.6]
        if rng.random() < 0.25:
            sc['name'] = 'same_name'     # names need not be unique
        if rng.random() < 0.25:
            # the sensor is constructed while the simulation is running, or between two simulate() calls
            sc['late'] = rng.choice((['event', rng.choice((0, 0.25, 0.5, 1, 1.5, 2.5, horizon * 0.5)), rng.choice((2, 4.5, 6, 11))],
                                     ['between']))
        sensors.append(sc)
    ops = []
    tg = [x * 0.25 for x in range(0, int(horizon * 4) + 1)]
    for _ in range(rng.choice((0, 3, 8, 20))):
        k = rng.choice(('set', 'set', 'append', 'append', 'fail', 'restore', 'shutdown', 'restore', 'manual'))
        ops.append({'t': rng.choice(tg), 'pr': rng.choice((2, 3.5, 4, 4.5, 6, 9, 11)), 'op': k, 'v': rng.randrange(100)})
    ops.sort(key=lambda o: (o['t'], -o['pr']))
    plan = [horizon] if rng.random() < 0.7 else [horizon * 0.5, horizon * 0.5]
    if any(sc.get('late') == ['between'] for sc in sensors):
        plan = [horizon * 0.5, horizon * 0.5]
    return {'engine': 'schedsim', 'kind': 'sensor', 'sensors': sensors, 'cms': n_cms,
            'line': {'src_ct': rng.choice((0.25, 0.5, 1)), 'ct': rng.choice((0, 0.25, 0.5, 1)),
                     'parts': rng.choice((None, 5, 20)), 'sink_ct': rng.choice((0, 0.5))},
            'ops': ops, 'plan': plan, 'tiebreak': core.gen_tiebreak(rng), 'id_offset': rng.choice((0, 30))}


def shrink_sensor(case):
    ops = case['ops']
    for i in range(len(ops)):
        c = dict(case)
        c['ops'] = ops[:i] + ops[i + 1:]
        yield c
    ss = case['sensors']
    if len(ss) > 1:
        for i in range(len(ss)):
            c = dict(case)
            c['sensors'] = ss[:i] + ss[i + 1:]
            yield c
    for i, sc in enumerate(ss):
        if len(sc['probes']) > 1:
            c = dict(case)
            c['sensors'] = ss[:i] + [dict(sc, probes=sc['probes'][:1])] + ss[i + 1:]
            yield c
        if sc.get('cms'):
            c = dict(case)
            c['sensors'] = ss[:i] + [dict(sc, cms=[])] + ss[i + 1:]
            yield c
        if sc.get('callbacks', 1) > 1:
            c = dict(case)
            c['sensors'] = ss[:i] + [dict(sc, callbacks=1)] + ss[i + 1:]
            yield c
    if len(case['plan']) > 1:
        c = dict(case)
        c['plan'] = [sum(case['plan'])]
        yield c
    tot = sum(case['plan'])
    if len(case['plan']) == 1 and tot > 2:
        c = dict(case)
        c['plan'] = [int(tot / 2 * 4) / 4]
        c['ops'] = [o for o in ops if o['t'] <= c['plan'][0]]
        yield c
