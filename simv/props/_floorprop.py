"""Common base for properties decided by floorsim."""
from .. import core, floorsim
from ..driver import Prop


class FloorProp(Prop):
    profile = 'default'
    timeout_s = 30.0
    real_vs_stub = {
        'real': ['all of simprocesd.model (Environment, System, ResourceManager, Source, PartHandler, '
                 'PartProcessor, Buffer, PartBatcher, DecisionGate, Group/GroupPath, Sink, Maintainer)'],
        'stub': ['tie-break weight source (seeded adversary)', 'PartGenerator subclass', 'gate predicates',
                 'receive/finish/shutdown/restored callbacks', 'PartProcessor subclass reporting work-order '
                 'duration/capacity/cost', 'matplotlib (import stub, never used)'],
    }
    base_assumptions = [
        'models are well-posed in the sense of DESIGN.md 2.5 (layered DAG, no batcher inside a group, zero-cycle '
        'sources have finite budgets, gate predicates are pure functions of the part ordinal)',
        'all times, cycle times and amounts are dyadic, so float sums are exact',
        'observation reads private slots (_part, _output, _buffer, _in_progress_batch)',
    ]

    crash_every = 0      # every n-th run is a crash-point case (fault placed at an event boundary of a dry run)

    def gen(self, rng, index, tier):
        if self.crash_every and index % self.crash_every == self.crash_every - 1:
            return floorsim.gen_crashpoint(rng)
        return floorsim.gen_case(rng, self.profile, big=(tier == 'thorough' and index % 4 == 0))

    def run(self, case):
        return floorsim.run_case(case, self.id)

    def shrink(self, case):
        return floorsim.shrink(case)

    def nontrivial(self, stats):
        return stats.get('parts_generated', 0) >= 2 and stats.get('dispatches', 0) >= 10

    def sample_view(self, case):
        return case
