from ._floorprop import FloorProp


class C17(FloorProp):
    id = 'C17'
    profile = 'c17'
    design_ref = 'DESIGN.md section 4 / C17'
    budgets = {'quick': 40000, 'thorough': 800000}


PROP = C17()
